#!/bin/bash
# tools/seeddev.sh <seeded-dir> <tier> <prop> [<prop>...]
# Development helper: like seedtest.sh, but the change is applied to a scratch worktree of /repo (VERIF_REPO) instead of
# /repo itself, so that /repo stays untouched (several of these can run side by side). Evidence written by these runs is
# thrown away. The recorded evaluations in seeded/*/meta.json say which of the two ways produced them.
set -u
SD=$(cd "$1" && pwd); TIER=$2; shift 2
export GOFLAGS=-mod=mod GOPROXY=off GOSUMDB=off GOTOOLCHAIN=local
NAME=$(basename "$SD")
WT=/tmp/seeddev_$$
git -C /repo worktree add -q --detach "$WT" HEAD || exit 3
cleanup() { git -C /repo worktree remove --force "$WT" >/dev/null 2>&1; rm -rf "/tmp/seeddev_root_$$"; }
trap cleanup EXIT
cd "$WT"
cp "$SD/demo_test.go" zz_seeded_demo_test.go
R_without=$(go test -vet=off -count=1 -run 'TestSeededDemo' . >/dev/null 2>&1 && echo pass || echo FAIL)
git apply "$SD/patch.diff" || { echo "RESULT $NAME patch-does-not-apply"; exit 3; }
R_with=$(go test -vet=off -count=1 -run 'TestSeededDemo' . >/dev/null 2>&1 && echo pass || echo FAIL)
rm zz_seeded_demo_test.go
R_suite=$(go test -vet=off -count=1 . >/dev/null 2>&1 && echo pass || echo FAIL)
echo "VERIFY $NAME demo-without=$R_without demo-with=$R_with suite-with=$R_suite"
# a private root: same engine binary and harness, own evidence/replays/.work
ROOT=/tmp/seeddev_root_$$
mkdir -p $ROOT/evidence $ROOT/replays $ROOT/.work
ln -s /verif/harness $ROOT/harness; ln -s /verif/known_findings.json $ROOT/known_findings.json; ln -s /verif/bin $ROOT/bin; ln -s /verif/engine $ROOT/engine
for P in "$@"; do
  OUT=$(VERIF_REPO=$WT VERIF_ROOT=$ROOT /verif/bin/gosmt check $P $TIER 2>&1); RC=$?
  echo "CHECK $NAME $P $TIER exit=$RC"
  echo "$OUT" | grep -E "^VIOLATION|^  H_|^INCONC" | cut -c1-400 | head -6
done
