#!/bin/bash
# tools/seedtest.sh <seeded-dir> <tier> <prop> [<prop>...]
# Verifies a seeded defect (suite passes with it, demo fails with it, demo passes without it) in a scratch
# worktree, then applies it to /repo, runs the given checks, and reverts /repo.
set -u
SD=$(cd "$1" && pwd); TIER=$2; shift 2
export GOFLAGS=-mod=mod GOPROXY=off GOSUMDB=off GOTOOLCHAIN=local
NAME=$(basename "$SD")
WT=/tmp/seedwt_$$
git -C /repo worktree add -q --detach "$WT" HEAD || exit 3
cleanup() { git -C /repo worktree remove --force "$WT" >/dev/null 2>&1; }
trap cleanup EXIT
cd "$WT"
cp "$SD/demo_test.go" zz_seeded_demo_test.go
R_without=$(go test -vet=off -count=1 -run 'TestSeededDemo' . >/dev/null 2>&1 && echo pass || echo FAIL)
git apply "$SD/patch.diff" || { echo "RESULT $NAME patch-does-not-apply"; exit 3; }
R_with=$(go test -vet=off -count=1 -run 'TestSeededDemo' . >/dev/null 2>&1 && echo pass || echo FAIL)
rm zz_seeded_demo_test.go
R_suite=$(go test -vet=off -count=1 . >/dev/null 2>&1 && echo pass || echo FAIL)
echo "VERIFY $NAME demo-without=$R_without demo-with=$R_with suite-with=$R_suite"
if [ "$R_without" != pass ] || [ "$R_with" != FAIL ] || [ "$R_suite" != pass ]; then echo "RESULT $NAME not-a-valid-seed"; exit 4; fi
cd /verif
if [ -n "$(git -C /repo status --porcelain)" ]; then echo "/repo not clean"; exit 5; fi
git -C /repo apply "$SD/patch.diff" || exit 3
for P in "$@"; do
  OUT=$(./check $P $TIER 2>&1); RC=$?
  echo "CHECK $NAME $P $TIER exit=$RC"
  echo "$OUT" | grep -E "^VIOLATION|^  H_|^INCONCLUSIVE" | cut -c1-400 | head -8
done
git -C /repo checkout -- .
git -C /verif checkout -- evidence 2>/dev/null
