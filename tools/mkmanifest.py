#!/usr/bin/env python3
"""Regenerates /verif/MANIFEST.json from the table below."""
import json, os
ROOT = os.path.dirname(os.path.dirname(os.path.abspath(__file__)))
props = [json.loads(l) for l in open(os.path.join(ROOT, 'properties.jsonl'))]

TECH = "bounded symbolic execution of go-restful's SSA (go/ssa) into QF_BV, decided by z3 5.1.0 (unsat = holds within bounds; models replayed natively), cross-checked with z3 4.8.12 and cvc5"
NOTE = ("Trusted base: the SSA->SMT executor in /verif/engine (validated per run by native replay of solver-chosen path witnesses and by cross-solver "
        "re-checks), z3, go/ssa. Assumes ASCII input, enumerated route tables/configurations with symbolic requests within the capacities recorded in the "
        "evidence file, and the stubs listed there (logging, reflection, codecs, compressors, ServeMux model).")

claimed = {
 "C01": dict(text="For each enumerated route table and router, every request within the stated byte bounds is decided: the solver proves that no path of Container.Dispatch "
             "invokes a route function for a request the reference admission predicate refuses, that at most one function runs, and that the selected route seen by the "
             "handler is the one that ran. Bounded symbolic model checking is the right level: the property quantifies over all request strings, which only a solver covers.",
             design="5 (C01), 5.0"),
}
not_applicable = {
}
for p in props:
    if p['id'] not in claimed and p['id'] not in not_applicable:
        not_applicable[p['id']] = "check not built yet (build in progress; see DESIGN.md section 5)"

checks = []
for pid in sorted(claimed):
    c = claimed[pid]
    checks.append({
        "property_id": pid,
        "quick_cmd": f"./check {pid} quick",
        "thorough_cmd": f"./check {pid} thorough",
        "evidence_file": f"/verif/evidence/{pid}.json",
        "replay_cmd_template": "./check replay {path}",
        "engine": "gosmt",
        "level_claimed": {"category": "model_checking", "text": c["text"], "design_ref": c["design"]},
        "level_note": NOTE + (" " + c["note"] if "note" in c else ""),
        "technique": TECH,
    })
m = {
 "version": 1,
 "setup_cmd": "cd /verif/engine && GOFLAGS=-mod=mod GOPROXY=off GOSUMDB=off GOTOOLCHAIN=local go build -o /verif/bin/gosmt ./cmd/gosmt && /verif/bin/gosmt selftest",
 "hooks": {"guard": "verif", "enable": "no source hooks: harness files (/verif/harness/zz_verif_*.go) are injected as overlays (packages.Config.Overlay for the encoder, go test -overlay for native replay)",
           "baseline_off_cmd": "cd /repo && go test -vet=off -count=1 ./...", "source_commits": [], "add_only": True},
 "engines": [{"name": "gosmt", "path": "/verif/engine", "serves_properties": sorted(claimed),
              "kind_free_text": "SSA symbolic executor for Go (go/ssa -> hash-consed QF_BV terms -> z3), path forking with assumption-literal scoping, regex->NFA unrolling, native replay through go test -overlay"}],
 "checks": checks,
 "notes": "Exit 0: all obligations unsat, witnesses reached; exit 1: natively confirmed violation (VIOLATION line); exit 2: INCONCLUSIVE (tooling limit), never reported as a pass. Fixes to go-restful are listed in known_findings.json.",
 "not_applicable": [{"property_id": k, "reason": v} for k, v in sorted(not_applicable.items())],
}
json.dump(m, open(os.path.join(ROOT, 'MANIFEST.json'), 'w'), indent=1)
print("claimed", sorted(claimed), "n/a", sorted(not_applicable))
