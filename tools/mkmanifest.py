#!/usr/bin/env python3
"""Regenerates /verif/MANIFEST.json from the table below."""
import json, os
ROOT = os.path.dirname(os.path.dirname(os.path.abspath(__file__)))
props = [json.loads(l) for l in open(os.path.join(ROOT, 'properties.jsonl'))]

TECH = "bounded symbolic execution of go-restful's SSA (go/ssa) into QF_BV, decided by z3 5.1.0 (unsat = holds within bounds; models replayed natively), cross-checked with z3 4.8.12 and cvc5"
NOTE = ("Trusted base: the SSA->SMT executor in /verif/engine (validated per run by native replay of solver-chosen path witnesses and by cross-solver "
        "re-checks), z3, go/ssa. Assumes ASCII input, enumerated route tables/configurations with symbolic requests within the capacities recorded in the "
        "evidence file, and the stubs listed there (logging, reflection, codecs, compressors, ServeMux model).")

claimed = {
 "C01": dict(text="For each enumerated route table (37 hand-written core tables plus pairs of templates generated from a grammar: a seeded sample in quick, all 1122 in thorough) and router, every request within the stated byte bounds is decided: the solver proves that no path of Container.Dispatch "
             "invokes a route function for a request the reference admission predicate refuses, that at most one function runs, and that the selected route seen by the "
             "handler is the one that ran. Bounded symbolic model checking is the right level: the property quantifies over all request strings, which only a solver covers.",
             design="5 (C01), 5.0"),
 "C02": dict(text="For each enumerated table and router the solver decides, for every request within the byte bounds, that Dispatch never panics, that at most one function runs, and that the "
             "observed outcome equals the reference outcome (best WebService, then path/If, method, Content-Type, Accept stages; 404/405 with exact Allow set/415/406) wherever the "
             "three-valued reference is definite; the dispatch is repeated with trace logging on and must agree, and the route Dispatch runs must also run when the request comes through the container's own ServeMux (ServeHTTP). Totality over all byte strings needs a solver, not samples.",
             design="5 (C02), 5.0"),
 "C03": dict(text="Twin containers holding the same table registered in two orders (orders enumerated, request symbolic) must give every request the same outcome; additionally no eligible "
             "route with a literal where the winner has a variable may exist. Decided per table by the solver over all requests in the bound.", design="5 (C03)"),
 "C04": dict(text="For the invoked route and every matching canonical request path in the bound, each bound value is proved equal to the oracle's view of the URL segment (minus affixes and "
             "custom verb), the tail wildcard to the joined remainder, and the key set to the declared variables; thorough adds the substitute-back round trip at a smaller capacity; the Curly-only tables are also run after Container.Router was called again (other router in between).", design="5 (C04)"),
 "C14": dict(text="Product harness: the same container serves p and p+\"/\" for a symbolic p; the solver proves equal status, route, parameter values and Allow header for every p in the bound; a second harness repeats the product on a container with a history (earlier requests for p and p/, then routes added with and without dynamic routes, one removed).", design="5 (C14)"),
 "C17": dict(text="Per symbolic URL: one dispatch per method of the table (plus a foreign one), one OPTIONS dispatch through OPTIONSFilter and a filter-less twin; the solver proves the Allow sets "
             "(405 and OPTIONS) equal the set of methods not answered 404/405, outside the recorded finding classes; one more method is a symbolic string different from every declared one (HEAD, PATCH, anything): it must not be routable.", design="5 (C17)"),
 "C18": dict(text="Twin containers (CurlyRouter, RouterJSR311) on tables of the common fragment get the same symbolic request; the solver proves equal route, parameter values, status and Allow "
             "set outside the recorded input classes (empty segment / no leading slash, newline byte).", design="5 (C18)"),
 "C05": dict(text="Real Response.EntityWriter, sortedMimes, insertMime, accessorAt, writeJSON/writeXML header logic and Route.matchesAccept run on a flat symbolic Accept header (marshalling stubbed, "
             "map iteration order an explicit choice): the solver proves that an admitted request is never answered 406 by the writer, that Content-Type is a produced registered type, equals "
             "the reference choice (whitespace-insensitive parse, q descending, stable, */* = first producible) wherever the reference is definite, and that the decision taken twice with "
             "independent map orders agrees; a sequence harness serves two requests with the same symbolic Accept header to routes with different Produces lists (also one method+path told apart by Consumes) and judges the second answer (the earlier request carries the same header, or only its first or only its second range), and the same request repeated must get the same representation.", design="5 (C05)"),
 "C15": dict(text="Every sequence (bounded length) of the Response writing calls over a writer that starts failing at a symbolic call and accepts a symbolic prefix: the solver proves "
             "StatusCode() = status received, ContentLength() = bytes accepted (before coding when a CompressingResponseWriter sits underneath) and that the failing call returns the writer's error; under a coding the chunks the underlying writer received are decoded and counted; entity values that cannot be marshalled (natively too) cover the error paths; a sequence harness sends 2-3 requests through one of two containers and compares what a trailing container filter reads from StatusCode()/ContentLength() with what that request's own writer received.",
             design="5 (C15)"),
 "C07": dict(text="Every combination of entry point, container/route encoding switch, outcome kind and provider is executed with a symbolic Accept-Encoding header, payload chunks and pre-set "
             "Content-Encoding; compressors are typestate stubs emitting one token ENC(coding, payload): the solver proves that an encoded response is one complete stream of the coding "
             "named in Content-Encoding whose payload is exactly the bytes written in order, that the coding is the one Accept-Encoding asks for first and that encoding is enabled, and "
             "that otherwise the body is exactly the raw bytes; also behind an encoding outer container (no double encoding), after an earlier request to a route with its own setting, with a superfluous late status (204/304/500) after the body, with a handler that never calls Write, with a handler that hijacks the connection, with the container switch flipped after Handle registered the plain handler, and with a client whose writes fail (ledger only). That real gzip/zlib streams decode to their input is assumed (checked natively on the replayed witnesses only).", design="5 (C07)"),
 "C10": dict(text="The panic position is a symbolic choice over every position of a generated filter chain (before/after each filter passes on, handler before/after writing); for recovery on/off, "
             "encoding on/off and both entry points the solver proves: recover handler once with the panic value and the active writer, complete decodable body, nothing escapes (or the same "
             "value propagates when recovery is off), no lock held, compressor ledger clean, and the next request on the same container is served normally; positions include a route selection condition and the container filters around a routing error; the default recover handler is covered for escape, completeness and Content-Length; the request's context may already be done; natively 'no lock held' is confirmed by trying the container's write lock.", design="5 (C10)"),
 "C11": dict(text="Explicit histories (<= 4 operations over a menu of 9 root paths, enumerated) build a container; a fresh container is built from the model of its final content; both get the same "
             "symbolic probe request (GET, or OPTIONS through the OPTIONS filter) through Dispatch and through ServeHTTP (ServeMux modelled) and must answer identically (status, route function, Allow); per history, variants send the probe once earlier (before one of the operations) and switch dynamic routes on at once, after the first routes, or only before the first route change; Add/Remove must not panic. The inductive formulation of the design was "
             "not built: the claim is bounded by history length.", design="5 (C11)"),
 "C19": dict(text="Per configuration family the same (or a second) symbolic request is served again on the same container and compared with the first answer / a fresh twin; a frame monitor in the "
             "executor classifies every store made while serving by the allocation epoch of its target and reports stores to state that outlives the request; trace on/off must agree; values "
             "handed to one handler are scribbled on (and a new path parameter is left behind) and must not reach the next; for five request shapes two requests in flight after a warm-up request are decided race-free and stuck-free over all schedules (event-order encoding).", design="5 (C19), 2.7, 2.8"),
 "C12": dict(text="Two threads - one request (to the changed service, to another one, or an OPTIONS request through OPTIONSFilter) through Dispatch or ServeHTTP, one of Add/Remove/Route/RemoveRoute - are executed in recording mode (loads/stores of pre-existing objects and RWMutex "
             "operations become events); per pair of conflicting accesses the solver decides over all schedules whether they can be adjacent (data race), and one query decides whether a state "
             "with a thread blocked forever is reachable (incl. a pending writer blocking new readers). Value level: the same two threads are run interleaved on one state, every interleaving with context switches at lock acquisitions and a bounded number of preemptions being one path (bounded interleaving exploration); the concurrent request's answer must be the one of the registrations before or after the change, and nine later requests must be answered as on a container where the change was made with no request in flight; schedules are replayed natively with the order enforced. Four quick items (all in thorough) add a third thread: Remove next to Add - two changes of the service list at once, neither may undo the other - plus a request.", design="5 (C12), 2.8, 2.8b", tech="; schedules are solver variables in the event-order encoding (data race / stuck state over all interleavings of the bounded thread set) and forked alternatives in the bounded interleaving exploration (context switches at lock acquisitions, preemption-bounded), each counterexample schedule replayed natively Four items also run a third thread in the quick tier: Remove next to Add (two changes of the service list at once, neither may undo the other) plus a request.",
             note="Event-order half: each thread is executed alone from the pre-mutation state. Interleaving half: context switches only at lock acquisitions (complete for lock-ordered accesses, which the race query establishes), <= 2 preemptions quick / 4 thorough. More threads/operations, the Go memory model, scheduler fairness and re-entrant user code are outside the claim."),
 "C13": dict(text="Concurrent half: the real BoundedCachedCompressors code runs per thread in recording mode (channel operations become events with symbolic results); for every capacity, initial "
             "fill, object kind and 2-3 threads one solver query over 8-bit timestamps and executed-flags decides whether any schedule reaches a state in which a thread is blocked forever in "
             "Acquire*/Release*. Sequential half: a ledger provider wrapped around the real providers proves on every path of the C07 harness and of two consecutive ReadEntity calls that each "
             "acquired object is released exactly once and not used afterwards. Value level under concurrency: 2-3 threads using each provider through the ledger, and two encoded responses in flight, are run interleaved on one state (switch points at provider calls and lock acquisitions, preemption-bounded): no object is handed out while in use, the ledger ends clean, each response decodes to its own payload.", design="5 (C13), 2.8, 2.8b", tech="; schedules are solver variables in the event-order encoding (stuck state over all interleavings of the bounded thread set) and forked alternatives in the bounded interleaving exploration"),
 "C06": dict(text="Enumerated filter counts per level and entry modes; each generated filter's behaviour (pass on / stop, replace the request-response pair, set an attribute, http middleware) "
             "is a symbolic bit; the solver proves on every path that the log of filter and handler invocations equals the reference sequence and that the pair and attributes passed on are "
             "the ones received, also after an earlier request on the same container (to the same route or to a sibling with the same method and path and its own route filter); routing failures are produced by the built-in routers and by a custom RouteSelector that reports a plain error.", design="5 (C06)"),
 "C08": dict(text="CrossOriginResourceSharing.Filter in a real container with symbolic Origin, symbolic allowed-domain entries and predicate string: the solver proves that any Access-Control-* "
             "response header implies the reference 'origin allowed' predicate, that Allow-Origin echoes the Origin once, credentials only if configured, and that requests without or with a "
             "disallowed Origin are served exactly like on a filter-less twin; a second harness chains two filters with different configurations; the predicate may have accepted the origin in an earlier request and refuse it now.", design="5 (C08)"),
 "C09": dict(text="Symbolic method, requested method and requested header list against configured or computed allowed methods and symbolic allowed headers: the solver proves that a preflight "
             "never reaches a later filter or route, is granted exactly when method and every requested header are allowed, and that actual requests proceed with each header once; an optional "
             "earlier preflight to the other URL must not change the answer; the requested headers may arrive on two header lines; the request's Host may be the host the Origin names.", design="5 (C09)"),
 "C16": dict(text="go-restful's part of the property, with the standard library codecs trusted: the entity is written by the real Response code and read back by the real Request.ReadEntity / entityReaderWriters.accessorAt / entityJSONAccess / entityXMLAccess code under every combination of entity kind, body coding, compressor provider, writing call, Content-Type spelling (verbatim, with a symbolic parameter suffix, absent or unregistered with a default request content type) and a history of up to two earlier requests (five kinds of broken body, a well-formed one, one of the other entity kind read under another default request content type) that share the pooled decompressors; a gzip body may consist of two members; every request announces its wire length and the reader model knows io.LimitedReader; the writer's Content-Type may also be sent under a default request content type naming the other media type; value and suffix are symbolic. encoding/json, encoding/xml, compress/gzip and compress/zlib are typestate stubs: a serialised value is an opaque token that only the decoder of the same kind turns back into an equal value, a compressed stream a token that only the decompressor of the same coding - reset onto it - opens; json numbers decoded into an untyped field without UseNumber lose precision beyond 2^53. The solver proves: no error and an equal value (64-bit integer exactly, also in the untyped field) for well-formed requests, an error and never a panic for broken ones, a clean decompressor ledger, and no influence of earlier requests. Counterexamples are replayed natively with the real codecs. The equality of the codecs themselves over their whole value domain (unicode strings, floats, nested values) cannot be encoded within reach and is NOT claimed.",
             design="5 (C16)", note="Partial claim: the codecs (encoding/json, encoding/xml, compress/gzip, compress/zlib) are trusted typestate stubs symbolically and the real packages natively; the value domain is one struct type per codec with an int64, a string of <= 3 bytes in a-z and (JSON) an untyped integer field; at most two earlier requests. The statement's quantifier over every value of the codecs' common domain and over unicode strings is outside the claim."),
}
not_applicable = {
}
for p in props:
    if p['id'] not in claimed and p['id'] not in not_applicable:
        not_applicable[p['id']] = "check not built yet (build in progress; see DESIGN.md section 5)"

checks = []
for pid in sorted(claimed):
    c = claimed[pid]
    checks.append({
        "property_id": pid,
        "quick_cmd": f"./check {pid} quick",
        "thorough_cmd": f"./check {pid} thorough",
        "evidence_file": f"/verif/evidence/{pid}.json",
        "replay_cmd_template": "./check replay {path}",
        "engine": "gosmt",
        "level_claimed": {"category": "model_checking", "text": c["text"], "design_ref": c["design"]},
        "level_note": NOTE + (" " + c["note"] if "note" in c else ""),
        "technique": TECH + c.get("tech", ""),
    })
m = {
 "version": 1,
 "setup_cmd": "cd /verif/engine && GOFLAGS=-mod=mod GOPROXY=off GOSUMDB=off GOTOOLCHAIN=local go build -o /verif/bin/gosmt ./cmd/gosmt && /verif/bin/gosmt selftest",
 "hooks": {"guard": "verif", "enable": "no source hooks: harness files (/verif/harness/zz_verif_*.go) are injected as overlays (packages.Config.Overlay for the encoder, go test -overlay for native replay)",
           "baseline_off_cmd": "cd /repo && go test -vet=off -count=1 ./...", "source_commits": [], "add_only": True},
 "engines": [{"name": "gosmt", "path": "/verif/engine", "serves_properties": sorted(claimed),
              "kind_free_text": "SSA symbolic executor for Go (go/ssa -> hash-consed QF_BV terms -> z3), path forking with assumption-literal scoping, regex->NFA unrolling, native replay through go test -overlay"}],
 "checks": checks,
 "notes": "Exit 0: all obligations unsat, witnesses reached; exit 1: natively confirmed violation (VIOLATION line); exit 2: INCONCLUSIVE (tooling limit), never reported as a pass. Fixes to go-restful are listed in known_findings.json.",
 "not_applicable": [{"property_id": k, "reason": v} for k, v in sorted(not_applicable.items())],
}
json.dump(m, open(os.path.join(ROOT, 'MANIFEST.json'), 'w'), indent=1)
print("claimed", sorted(claimed), "n/a", sorted(not_applicable))
