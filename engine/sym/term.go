// Package sym implements a hash-consed term DAG over Bool and fixed-width
// bit-vectors (width <= 64), a local simplifier, an evaluator and an SMT-LIB2
// printer.
package sym

import (
	"fmt"
	"sort"
	"strings"
)

type Op uint8

const (
	OpConst Op = iota
	OpVar
	OpNot
	OpAnd
	OpOr
	OpIte
	OpEq
	OpAdd
	OpSub
	OpMul
	OpNeg
	OpUlt
	OpUle
	OpSlt
	OpSle
	OpBvAnd
	OpBvOr
	OpBvXor
	OpBvNot
	OpShl
	OpLshr
	OpAshr
	OpZext
	OpSext
	OpExtract // Val = hi<<8 | lo
	OpConcat
	OpUdiv
	OpUrem
	OpSdiv
	OpSrem
)

var opNames = map[Op]string{
	OpNot: "not", OpAnd: "and", OpOr: "or", OpIte: "ite", OpEq: "=",
	OpAdd: "bvadd", OpSub: "bvsub", OpMul: "bvmul", OpNeg: "bvneg",
	OpUlt: "bvult", OpUle: "bvule", OpSlt: "bvslt", OpSle: "bvsle",
	OpBvAnd: "bvand", OpBvOr: "bvor", OpBvXor: "bvxor", OpBvNot: "bvnot",
	OpShl: "bvshl", OpLshr: "bvlshr", OpAshr: "bvashr", OpConcat: "concat",
	OpUdiv: "bvudiv", OpUrem: "bvurem", OpSdiv: "bvsdiv", OpSrem: "bvsrem",
}

// Term is an immutable node. W == 0 means Bool, otherwise a bit-vector width.
type Term struct {
	ID   int
	Op   Op
	W    int
	Args []*Term
	Val  uint64
	Name string
	// Lo, Hi: conservative bounds of the value read as a signed integer of
	// width W (bit-vector terms only). Used for width narrowing.
	Lo, Hi int64
}

func (t *Term) IsConst() bool { return t.Op == OpConst }
func (t *Term) IsBool() bool  { return t.W == 0 }

// ConstVal returns the constant value if t is constant.
func (t *Term) ConstVal() (uint64, bool) {
	if t.Op == OpConst {
		return t.Val, true
	}
	return 0, false
}

// IsTrue / IsFalse test for the Bool constants.
func (t *Term) IsTrue() bool  { return t.Op == OpConst && t.W == 0 && t.Val == 1 }
func (t *Term) IsFalse() bool { return t.Op == OpConst && t.W == 0 && t.Val == 0 }

type key struct {
	op      Op
	w       int
	val     uint64
	name    string
	a, b, c int
	rest    string
}

// Ctx owns a term table. Not safe for concurrent use.
type Ctx struct {
	table map[key]*Term
	Terms []*Term
	Vars  []*Term
	True  *Term
	False *Term
}

func NewCtx() *Ctx {
	c := &Ctx{table: map[key]*Term{}}
	c.True = c.mk(OpConst, 0, 1, "", nil)
	c.False = c.mk(OpConst, 0, 0, "", nil)
	return c
}

func (c *Ctx) mk(op Op, w int, val uint64, name string, args []*Term) *Term {
	k := key{op: op, w: w, val: val, name: name, a: -1, b: -1, c: -1}
	switch len(args) {
	case 0:
	case 1:
		k.a = args[0].ID
	case 2:
		k.a, k.b = args[0].ID, args[1].ID
	case 3:
		k.a, k.b, k.c = args[0].ID, args[1].ID, args[2].ID
	default:
		var sb strings.Builder
		for _, a := range args {
			fmt.Fprintf(&sb, "%d,", a.ID)
		}
		k.rest = sb.String()
	}
	if t, ok := c.table[k]; ok {
		return t
	}
	t := &Term{ID: len(c.Terms), Op: op, W: w, Args: args, Val: val, Name: name}
	if w > 0 {
		t.Lo, t.Hi = interval(t)
	}
	c.Terms = append(c.Terms, t)
	c.table[k] = t
	if op == OpVar {
		c.Vars = append(c.Vars, t)
	}
	return t
}

func mask(w int) uint64 {
	if w >= 64 {
		return ^uint64(0)
	}
	return (uint64(1) << uint(w)) - 1
}

func signExt(v uint64, w int) int64 {
	if w >= 64 {
		return int64(v)
	}
	if v&(uint64(1)<<uint(w-1)) != 0 {
		return int64(v | ^mask(w))
	}
	return int64(v)
}

// ---------------------------------------------------------------- intervals and narrowing

func fullRange(w int) (int64, int64) {
	if w >= 64 {
		return -1 << 63, 1<<63 - 1
	}
	return -(int64(1) << uint(w-1)), int64(1)<<uint(w-1) - 1
}

func inRange(lo, hi int64, w int) bool {
	l, h := fullRange(w)
	return lo >= l && hi <= h && lo <= hi
}

// interval computes conservative signed bounds for a freshly built term.
func interval(t *Term) (int64, int64) {
	w := t.W
	fl, fh := fullRange(w)
	small := func(x *Term) bool { // bounds far from overflow of int64 arithmetic
		return x.Lo > -(1<<40) && x.Hi < (1<<40)
	}
	switch t.Op {
	case OpConst:
		v := signExt(t.Val, w)
		return v, v
	case OpIte:
		a, b := t.Args[1], t.Args[2]
		lo, hi := a.Lo, a.Hi
		if b.Lo < lo {
			lo = b.Lo
		}
		if b.Hi > hi {
			hi = b.Hi
		}
		return lo, hi
	case OpZext:
		x := t.Args[0]
		if x.Lo >= 0 {
			return x.Lo, x.Hi
		}
		if x.W < 63 {
			return 0, int64(1)<<uint(x.W) - 1
		}
	case OpSext:
		x := t.Args[0]
		return x.Lo, x.Hi
	case OpAdd:
		a, b := t.Args[0], t.Args[1]
		if small(a) && small(b) {
			lo, hi := a.Lo+b.Lo, a.Hi+b.Hi
			if inRange(lo, hi, w) {
				return lo, hi
			}
		}
	case OpSub:
		a, b := t.Args[0], t.Args[1]
		if small(a) && small(b) {
			lo, hi := a.Lo-b.Hi, a.Hi-b.Lo
			if inRange(lo, hi, w) {
				return lo, hi
			}
		}
	case OpExtract:
		x := t.Args[0]
		if t.Val&0xff == 0 && inRange(x.Lo, x.Hi, w) {
			return x.Lo, x.Hi
		}
	}
	return fl, fh
}

// NarrowW is the width at which small integer computations are carried out.
const NarrowW = 16

func fitsNarrow(t *Term) bool { return t.Lo >= -(1<<15) && t.Hi <= (1<<15)-1 }

// tryNarrow returns a NarrowW-bit term with the same signed value as t, or nil
// if t is not known to fit or has no cheap narrow form.
func (c *Ctx) tryNarrow(t *Term) *Term {
	if t.W <= NarrowW || !fitsNarrow(t) {
		return nil
	}
	switch t.Op {
	case OpConst:
		return c.BV(t.Val, NarrowW)
	case OpSext:
		x := t.Args[0]
		if x.W == NarrowW {
			return x
		}
		if x.W < NarrowW {
			return c.Sext(x, NarrowW)
		}
	case OpZext:
		x := t.Args[0]
		if x.W < NarrowW {
			return c.Zext(x, NarrowW)
		}
	}
	return nil
}

// widen wraps a narrow term back to width w (sign extension).
func (c *Ctx) widen(t *Term, w int) *Term { return c.Sext(t, w) }

// ---------------------------------------------------------------- constructors

func (c *Ctx) Bool(b bool) *Term {
	if b {
		return c.True
	}
	return c.False
}

func (c *Ctx) BV(v uint64, w int) *Term {
	if w <= 0 || w > 64 {
		panic(fmt.Sprintf("sym: bad width %d", w))
	}
	return c.mk(OpConst, w, v&mask(w), "", nil)
}

func (c *Ctx) Int64(v int64) *Term { return c.BV(uint64(v), 64) }

// Var declares (or returns) a variable. w == 0 for Bool.
func (c *Ctx) Var(name string, w int) *Term {
	return c.mk(OpVar, w, 0, name, nil)
}

func (c *Ctx) Not(a *Term) *Term {
	if a.W != 0 {
		panic("sym: Not on non-bool")
	}
	if a.Op == OpConst {
		return c.Bool(a.Val == 0)
	}
	if a.Op == OpNot {
		return a.Args[0]
	}
	return c.mk(OpNot, 0, 0, "", []*Term{a})
}

func (c *Ctx) nary(op Op, args []*Term) *Term {
	// flatten, dedupe, handle constants
	isAnd := op == OpAnd
	var flat []*Term
	seen := map[int]bool{}
	var add func(t *Term) bool
	add = func(t *Term) bool {
		if t.W != 0 {
			panic("sym: and/or on non-bool")
		}
		if t.Op == OpConst {
			if (t.Val == 1) == isAnd {
				return true // neutral
			}
			return false // absorbing
		}
		if t.Op == op {
			for _, a := range t.Args {
				if !add(a) {
					return false
				}
			}
			return true
		}
		if seen[t.ID] {
			return true
		}
		seen[t.ID] = true
		flat = append(flat, t)
		return true
	}
	for _, a := range args {
		if !add(a) {
			return c.Bool(!isAnd)
		}
	}
	// x and not x
	for _, t := range flat {
		if t.Op == OpNot && seen[t.Args[0].ID] {
			return c.Bool(!isAnd)
		}
	}
	if len(flat) == 0 {
		return c.Bool(isAnd)
	}
	if len(flat) == 1 {
		return flat[0]
	}
	sort.Slice(flat, func(i, j int) bool { return flat[i].ID < flat[j].ID })
	return c.mk(op, 0, 0, "", flat)
}

func (c *Ctx) And(args ...*Term) *Term { return c.nary(OpAnd, args) }
func (c *Ctx) Or(args ...*Term) *Term  { return c.nary(OpOr, args) }
func (c *Ctx) Implies(a, b *Term) *Term {
	return c.Or(c.Not(a), b)
}

func (c *Ctx) Ite(cond, a, b *Term) *Term {
	if cond.W != 0 {
		panic("sym: ite cond non-bool")
	}
	if a.W != b.W {
		panic(fmt.Sprintf("sym: ite width mismatch %d %d", a.W, b.W))
	}
	if cond.Op == OpConst {
		if cond.Val == 1 {
			return a
		}
		return b
	}
	if a == b {
		return a
	}
	if cond.Op == OpNot {
		return c.Ite(cond.Args[0], b, a)
	}
	if a.W == 0 {
		if a.IsTrue() && b.IsFalse() {
			return cond
		}
		if a.IsFalse() && b.IsTrue() {
			return c.Not(cond)
		}
		if a.IsTrue() {
			return c.Or(cond, b)
		}
		if a.IsFalse() {
			return c.And(c.Not(cond), b)
		}
		if b.IsTrue() {
			return c.Or(c.Not(cond), a)
		}
		if b.IsFalse() {
			return c.And(cond, a)
		}
	}
	// ite(c, x, ite(c, y, z)) = ite(c, x, z)
	if b.Op == OpIte && b.Args[0] == cond {
		return c.Ite(cond, a, b.Args[2])
	}
	if a.Op == OpIte && a.Args[0] == cond {
		return c.Ite(cond, a.Args[1], b)
	}
	if a.W > NarrowW {
		if na, nb := c.tryNarrow(a), c.tryNarrow(b); na != nil && nb != nil {
			return c.widen(c.Ite(cond, na, nb), a.W)
		}
	}
	return c.mk(OpIte, a.W, 0, "", []*Term{cond, a, b})
}

// iteConstLeafs reports whether t is a tree of ites whose leaves are all
// constants, with at most `budget` nodes.
func iteConstLeafs(t *Term, budget *int) bool {
	for {
		if *budget <= 0 {
			return false
		}
		*budget--
		if t.Op == OpConst {
			return true
		}
		if t.Op != OpIte {
			return false
		}
		if !iteConstLeafs(t.Args[1], budget) {
			return false
		}
		t = t.Args[2]
	}
}

// liftCmp pushes a comparison with a constant through an ite tree with
// constant leaves: cmp(ite(c,a,b), k) = ite(c, cmp(a,k), cmp(b,k)).
func (c *Ctx) liftCmp(t *Term, f func(leaf *Term) *Term) *Term {
	if t.Op == OpConst {
		return f(t)
	}
	return c.Ite(t.Args[0], c.liftCmp(t.Args[1], f), c.liftCmp(t.Args[2], f))
}

func (c *Ctx) Eq(a, b *Term) *Term {
	if a.W != b.W {
		panic(fmt.Sprintf("sym: eq width mismatch %d %d", a.W, b.W))
	}
	if a == b {
		return c.True
	}
	if a.Op == OpConst && b.Op == OpConst {
		return c.Bool(a.Val == b.Val)
	}
	if a.Op == OpConst {
		a, b = b, a
	}
	if a.W > NarrowW {
		na, nb := c.tryNarrow(a), c.tryNarrow(b)
		if na != nil && nb != nil {
			return c.Eq(na, nb)
		}
		// one side narrow, the other a constant outside the narrow range
		if na != nil && b.Op == OpConst {
			return c.False
		}
	}
	if a.W == 0 {
		if b.Op == OpConst {
			if b.Val == 1 {
				return a
			}
			return c.Not(a)
		}
	}
	if b.Op == OpConst {
		if a.Op == OpIte {
			budget := 400
			if iteConstLeafs(a, &budget) {
				return c.liftCmp(a, func(l *Term) *Term { return c.Bool(l.Val == b.Val) })
			}
		}
		// zext(x) == k
		if a.Op == OpZext {
			x := a.Args[0]
			if b.Val&^mask(x.W) != 0 {
				return c.False
			}
			return c.Eq(x, c.BV(b.Val, x.W))
		}
		// x + k1 == k2  ->  x == k2-k1
		if a.Op == OpAdd && a.Args[1].Op == OpConst {
			return c.Eq(a.Args[0], c.BV(b.Val-a.Args[1].Val, a.W))
		}
	}
	if a.ID > b.ID && b.Op != OpConst {
		a, b = b, a
	}
	return c.mk(OpEq, 0, 0, "", []*Term{a, b})
}

func (c *Ctx) Ne(a, b *Term) *Term { return c.Not(c.Eq(a, b)) }

func (c *Ctx) binArith(op Op, a, b *Term) *Term {
	if a.W != b.W || a.W == 0 {
		panic(fmt.Sprintf("sym: arith width mismatch op=%d %d %d", op, a.W, b.W))
	}
	w := a.W
	if a.Op == OpConst && b.Op == OpConst {
		return c.BV(foldBin(op, a.Val, b.Val, w), w)
	}
	if w > NarrowW && (op == OpAdd || op == OpSub) {
		if na, nb := c.tryNarrow(a), c.tryNarrow(b); na != nil && nb != nil {
			var lo, hi int64
			if op == OpAdd {
				lo, hi = a.Lo+b.Lo, a.Hi+b.Hi
			} else {
				lo, hi = a.Lo-b.Hi, a.Hi-b.Lo
			}
			if lo >= -(1<<15) && hi <= (1<<15)-1 {
				return c.widen(c.binArith(op, na, nb), w)
			}
		}
	}
	switch op {
	case OpAdd:
		if a.Op == OpConst {
			a, b = b, a
		}
		if b.Op == OpConst {
			if b.Val == 0 {
				return a
			}
			if a.Op == OpAdd && a.Args[1].Op == OpConst {
				return c.binArith(OpAdd, a.Args[0], c.BV(a.Args[1].Val+b.Val, w))
			}
			if a.Op == OpIte {
				budget := 200
				if iteConstLeafs(a, &budget) {
					return c.liftCmp(a, func(l *Term) *Term { return c.BV(l.Val+b.Val, w) })
				}
			}
		} else if a.ID > b.ID {
			a, b = b, a
		}
	case OpSub:
		if a == b {
			return c.BV(0, w)
		}
		if b.Op == OpConst {
			return c.binArith(OpAdd, a, c.BV(-b.Val, w))
		}
	case OpMul:
		if a.Op == OpConst {
			a, b = b, a
		}
		if b.Op == OpConst {
			if b.Val == 0 {
				return b
			}
			if b.Val == 1 {
				return a
			}
		}
	case OpBvAnd:
		if a == b {
			return a
		}
		if a.Op == OpConst {
			a, b = b, a
		}
		if b.Op == OpConst {
			if b.Val == 0 {
				return b
			}
			if b.Val == mask(w) {
				return a
			}
		}
	case OpBvOr:
		if a == b {
			return a
		}
		if a.Op == OpConst {
			a, b = b, a
		}
		if b.Op == OpConst {
			if b.Val == 0 {
				return a
			}
			if b.Val == mask(w) {
				return b
			}
		}
	case OpBvXor:
		if a == b {
			return c.BV(0, w)
		}
		if a.Op == OpConst {
			a, b = b, a
		}
		if b.Op == OpConst && b.Val == 0 {
			return a
		}
	case OpShl, OpLshr, OpAshr:
		if b.Op == OpConst && b.Val == 0 {
			return a
		}
	}
	return c.mk(op, w, 0, "", []*Term{a, b})
}

func foldBin(op Op, x, y uint64, w int) uint64 {
	m := mask(w)
	x &= m
	y &= m
	switch op {
	case OpAdd:
		return (x + y) & m
	case OpSub:
		return (x - y) & m
	case OpMul:
		return (x * y) & m
	case OpBvAnd:
		return x & y
	case OpBvOr:
		return x | y
	case OpBvXor:
		return x ^ y
	case OpShl:
		if y >= uint64(w) {
			return 0
		}
		return (x << y) & m
	case OpLshr:
		if y >= uint64(w) {
			return 0
		}
		return x >> y
	case OpAshr:
		sx := signExt(x, w)
		if y >= uint64(w) {
			if sx < 0 {
				return m
			}
			return 0
		}
		return uint64(sx>>y) & m
	case OpUdiv:
		if y == 0 {
			return m
		}
		return x / y
	case OpUrem:
		if y == 0 {
			return x
		}
		return x % y
	case OpSdiv:
		sx, sy := signExt(x, w), signExt(y, w)
		if sy == 0 {
			if sx < 0 {
				return 1
			}
			return m
		}
		if sy == -1 {
			return uint64(-sx) & m
		}
		return uint64(sx/sy) & m
	case OpSrem:
		sx, sy := signExt(x, w), signExt(y, w)
		if sy == 0 {
			return x
		}
		if sy == -1 {
			return 0
		}
		return uint64(sx%sy) & m
	}
	panic("foldBin")
}

func (c *Ctx) Add(a, b *Term) *Term    { return c.binArith(OpAdd, a, b) }
func (c *Ctx) Sub(a, b *Term) *Term    { return c.binArith(OpSub, a, b) }
func (c *Ctx) Mul(a, b *Term) *Term    { return c.binArith(OpMul, a, b) }
func (c *Ctx) BvAnd(a, b *Term) *Term  { return c.binArith(OpBvAnd, a, b) }
func (c *Ctx) BvOr(a, b *Term) *Term   { return c.binArith(OpBvOr, a, b) }
func (c *Ctx) BvXor(a, b *Term) *Term  { return c.binArith(OpBvXor, a, b) }
func (c *Ctx) Shl(a, b *Term) *Term    { return c.binArith(OpShl, a, b) }
func (c *Ctx) Lshr(a, b *Term) *Term   { return c.binArith(OpLshr, a, b) }
func (c *Ctx) Ashr(a, b *Term) *Term   { return c.binArith(OpAshr, a, b) }
func (c *Ctx) Udiv(a, b *Term) *Term   { return c.binArith(OpUdiv, a, b) }
func (c *Ctx) Urem(a, b *Term) *Term   { return c.binArith(OpUrem, a, b) }
func (c *Ctx) Sdiv(a, b *Term) *Term   { return c.binArith(OpSdiv, a, b) }
func (c *Ctx) Srem(a, b *Term) *Term   { return c.binArith(OpSrem, a, b) }
func (c *Ctx) AddC(a *Term, k int64) *Term { return c.Add(a, c.BV(uint64(k), a.W)) }

func (c *Ctx) Neg(a *Term) *Term {
	if a.Op == OpConst {
		return c.BV(-a.Val, a.W)
	}
	return c.mk(OpNeg, a.W, 0, "", []*Term{a})
}

func (c *Ctx) BvNot(a *Term) *Term {
	if a.Op == OpConst {
		return c.BV(^a.Val, a.W)
	}
	return c.mk(OpBvNot, a.W, 0, "", []*Term{a})
}

func foldCmp(op Op, x, y uint64, w int) bool {
	switch op {
	case OpUlt:
		return x < y
	case OpUle:
		return x <= y
	case OpSlt:
		return signExt(x, w) < signExt(y, w)
	case OpSle:
		return signExt(x, w) <= signExt(y, w)
	}
	panic("foldCmp")
}

func (c *Ctx) cmp(op Op, a, b *Term) *Term {
	if a.W != b.W || a.W == 0 {
		panic(fmt.Sprintf("sym: cmp width mismatch %d %d", a.W, b.W))
	}
	if a.Op == OpConst && b.Op == OpConst {
		return c.Bool(foldCmp(op, a.Val, b.Val, a.W))
	}
	if a == b {
		return c.Bool(op == OpUle || op == OpSle)
	}
	if a.W > NarrowW {
		na, nb := c.tryNarrow(a), c.tryNarrow(b)
		if na != nil && nb != nil {
			switch op {
			case OpSlt, OpSle:
				return c.cmp(op, na, nb)
			case OpUlt, OpUle:
				if a.Lo >= 0 && b.Lo >= 0 {
					return c.cmp(op, na, nb)
				}
			}
		}
		// narrow value against a constant outside the narrow range
		if na != nil && b.Op == OpConst && (op == OpSlt || op == OpSle) {
			return c.Bool(signExt(b.Val, b.W) > a.Hi)
		}
		if nb != nil && a.Op == OpConst && (op == OpSlt || op == OpSle) {
			return c.Bool(signExt(a.Val, a.W) < b.Lo)
		}
	}
	if b.Op == OpConst && a.Op == OpIte {
		budget := 400
		if iteConstLeafs(a, &budget) {
			return c.liftCmp(a, func(l *Term) *Term { return c.Bool(foldCmp(op, l.Val, b.Val, a.W)) })
		}
	}
	if a.Op == OpConst && b.Op == OpIte {
		budget := 400
		if iteConstLeafs(b, &budget) {
			return c.liftCmp(b, func(l *Term) *Term { return c.Bool(foldCmp(op, a.Val, l.Val, a.W)) })
		}
	}
	// unsigned trivia
	if op == OpUlt && b.Op == OpConst && b.Val == 0 {
		return c.False
	}
	if op == OpUle && a.Op == OpConst && a.Val == 0 {
		return c.True
	}
	// comparisons of zero-extended values against small constants
	if a.Op == OpZext && b.Op == OpConst {
		x := a.Args[0]
		neg := signExt(b.Val, a.W) < 0
		switch op {
		case OpSlt, OpSle:
			if neg {
				return c.False
			}
			if b.Val > mask(x.W) {
				return c.True
			}
			if op == OpSlt {
				return c.cmp(OpUlt, x, c.BV(b.Val, x.W))
			}
			return c.cmp(OpUle, x, c.BV(b.Val, x.W))
		case OpUlt, OpUle:
			if b.Val > mask(x.W) {
				return c.True
			}
			return c.cmp(op, x, c.BV(b.Val, x.W))
		}
	}
	if b.Op == OpZext && a.Op == OpConst {
		x := b.Args[0]
		neg := signExt(a.Val, b.W) < 0
		switch op {
		case OpSlt, OpSle:
			if neg {
				return c.True
			}
			if a.Val > mask(x.W) {
				return c.False
			}
			if op == OpSlt {
				return c.cmp(OpUlt, c.BV(a.Val, x.W), x)
			}
			return c.cmp(OpUle, c.BV(a.Val, x.W), x)
		case OpUlt, OpUle:
			if a.Val > mask(x.W) {
				return c.False
			}
			return c.cmp(op, c.BV(a.Val, x.W), x)
		}
	}
	if a.Op == OpZext && b.Op == OpZext && a.Args[0].W == b.Args[0].W {
		switch op {
		case OpSlt:
			return c.cmp(OpUlt, a.Args[0], b.Args[0])
		case OpSle:
			return c.cmp(OpUle, a.Args[0], b.Args[0])
		default:
			return c.cmp(op, a.Args[0], b.Args[0])
		}
	}
	return c.mk(op, 0, 0, "", []*Term{a, b})
}

func (c *Ctx) Ult(a, b *Term) *Term { return c.cmp(OpUlt, a, b) }
func (c *Ctx) Ule(a, b *Term) *Term { return c.cmp(OpUle, a, b) }
func (c *Ctx) Slt(a, b *Term) *Term { return c.cmp(OpSlt, a, b) }
func (c *Ctx) Sle(a, b *Term) *Term { return c.cmp(OpSle, a, b) }
func (c *Ctx) Ugt(a, b *Term) *Term { return c.cmp(OpUlt, b, a) }
func (c *Ctx) Uge(a, b *Term) *Term { return c.cmp(OpUle, b, a) }
func (c *Ctx) Sgt(a, b *Term) *Term { return c.cmp(OpSlt, b, a) }
func (c *Ctx) Sge(a, b *Term) *Term { return c.cmp(OpSle, b, a) }

func (c *Ctx) Zext(a *Term, w int) *Term {
	if w == a.W {
		return a
	}
	if w < a.W {
		panic("sym: zext to smaller width")
	}
	if a.Op == OpConst {
		return c.BV(a.Val, w)
	}
	if a.Op == OpZext {
		return c.Zext(a.Args[0], w)
	}
	if a.Op == OpIte && w <= NarrowW {
		budget := 200
		if iteConstLeafs(a, &budget) {
			return c.liftCmp(a, func(l *Term) *Term { return c.BV(l.Val, w) })
		}
	}
	return c.mk(OpZext, w, 0, "", []*Term{a})
}

func (c *Ctx) Sext(a *Term, w int) *Term {
	if w == a.W {
		return a
	}
	if w < a.W {
		panic("sym: sext to smaller width")
	}
	if a.Op == OpConst {
		return c.BV(uint64(signExt(a.Val, a.W)), w)
	}
	if a.Op == OpZext {
		return c.Zext(a.Args[0], w)
	}
	if a.Op == OpIte && w <= NarrowW {
		budget := 200
		if iteConstLeafs(a, &budget) {
			return c.liftCmp(a, func(l *Term) *Term { return c.BV(uint64(signExt(l.Val, a.W)), w) })
		}
	}
	return c.mk(OpSext, w, 0, "", []*Term{a})
}

// Extract bits hi..lo (inclusive).
func (c *Ctx) Extract(a *Term, hi, lo int) *Term {
	w := hi - lo + 1
	if lo == 0 && w == a.W {
		return a
	}
	if a.Op == OpConst {
		return c.BV(a.Val>>uint(lo), w)
	}
	if lo == 0 && (a.Op == OpZext || a.Op == OpSext) {
		x := a.Args[0]
		if w == x.W {
			return x
		}
		if w < x.W {
			return c.Extract(x, hi, 0)
		}
		if a.Op == OpZext {
			return c.Zext(x, w)
		}
		return c.Sext(x, w)
	}
	if lo == 0 && a.Op == OpIte {
		budget := 200
		if iteConstLeafs(a, &budget) {
			return c.liftCmp(a, func(l *Term) *Term { return c.BV(l.Val, w) })
		}
	}
	return c.mk(OpExtract, w, uint64(hi)<<8|uint64(lo), "", []*Term{a})
}

// Trunc keeps the low w bits.
func (c *Ctx) Trunc(a *Term, w int) *Term { return c.Extract(a, w-1, 0) }

func (c *Ctx) Concat(hi, lo *Term) *Term {
	w := hi.W + lo.W
	if w > 64 {
		panic("sym: concat too wide")
	}
	if hi.Op == OpConst && lo.Op == OpConst {
		return c.BV(hi.Val<<uint(lo.W)|lo.Val, w)
	}
	return c.mk(OpConcat, w, 0, "", []*Term{hi, lo})
}

// ---------------------------------------------------------------- evaluation

// Model maps variable term IDs to values.
type Model map[int]uint64

// Evaluator evaluates terms under a model with memoisation.
type Evaluator struct {
	M    Model
	memo map[int]uint64
}

func NewEvaluator(m Model) *Evaluator { return &Evaluator{M: m, memo: map[int]uint64{}} }

func (e *Evaluator) Eval(t *Term) uint64 {
	if t.Op == OpConst {
		return t.Val
	}
	if v, ok := e.memo[t.ID]; ok {
		return v
	}
	var v uint64
	switch t.Op {
	case OpVar:
		v = e.M[t.ID] & maskB(t.W)
	case OpNot:
		v = 1 - e.Eval(t.Args[0])
	case OpAnd:
		v = 1
		for _, a := range t.Args {
			if e.Eval(a) == 0 {
				v = 0
				break
			}
		}
	case OpOr:
		v = 0
		for _, a := range t.Args {
			if e.Eval(a) == 1 {
				v = 1
				break
			}
		}
	case OpIte:
		if e.Eval(t.Args[0]) == 1 {
			v = e.Eval(t.Args[1])
		} else {
			v = e.Eval(t.Args[2])
		}
	case OpEq:
		if e.Eval(t.Args[0]) == e.Eval(t.Args[1]) {
			v = 1
		}
	case OpAdd, OpSub, OpMul, OpBvAnd, OpBvOr, OpBvXor, OpShl, OpLshr, OpAshr, OpUdiv, OpUrem, OpSdiv, OpSrem:
		v = foldBin(t.Op, e.Eval(t.Args[0]), e.Eval(t.Args[1]), t.W)
	case OpNeg:
		v = (-e.Eval(t.Args[0])) & mask(t.W)
	case OpBvNot:
		v = (^e.Eval(t.Args[0])) & mask(t.W)
	case OpUlt, OpUle, OpSlt, OpSle:
		if foldCmp(t.Op, e.Eval(t.Args[0]), e.Eval(t.Args[1]), t.Args[0].W) {
			v = 1
		}
	case OpZext:
		v = e.Eval(t.Args[0])
	case OpSext:
		v = uint64(signExt(e.Eval(t.Args[0]), t.Args[0].W)) & mask(t.W)
	case OpExtract:
		lo := int(t.Val & 0xff)
		v = (e.Eval(t.Args[0]) >> uint(lo)) & mask(t.W)
	case OpConcat:
		v = e.Eval(t.Args[0])<<uint(t.Args[1].W) | e.Eval(t.Args[1])
	default:
		panic(fmt.Sprintf("sym: eval op %d", t.Op))
	}
	e.memo[t.ID] = v
	return v
}

func maskB(w int) uint64 {
	if w == 0 {
		return 1
	}
	return mask(w)
}

// ---------------------------------------------------------------- printing

func SortName(w int) string {
	if w == 0 {
		return "Bool"
	}
	return fmt.Sprintf("(_ BitVec %d)", w)
}

func constLit(t *Term) string {
	if t.W == 0 {
		if t.Val == 1 {
			return "true"
		}
		return "false"
	}
	if t.W%4 == 0 {
		return fmt.Sprintf("#x%0*x", t.W/4, t.Val)
	}
	return fmt.Sprintf("#b%0*b", t.W, t.Val)
}

// Ref is how a term is referred to from other definitions.
func Ref(t *Term) string {
	switch t.Op {
	case OpConst:
		return constLit(t)
	case OpVar:
		return "|" + t.Name + "|"
	}
	return fmt.Sprintf("t%d", t.ID)
}

// Body prints the defining expression of a non-leaf term using Ref for args.
func Body(t *Term) string {
	var sb strings.Builder
	switch t.Op {
	case OpZext:
		fmt.Fprintf(&sb, "((_ zero_extend %d) %s)", t.W-t.Args[0].W, Ref(t.Args[0]))
	case OpSext:
		fmt.Fprintf(&sb, "((_ sign_extend %d) %s)", t.W-t.Args[0].W, Ref(t.Args[0]))
	case OpExtract:
		fmt.Fprintf(&sb, "((_ extract %d %d) %s)", t.Val>>8, t.Val&0xff, Ref(t.Args[0]))
	default:
		sb.WriteString("(")
		sb.WriteString(opNames[t.Op])
		for _, a := range t.Args {
			sb.WriteString(" ")
			sb.WriteString(Ref(a))
		}
		sb.WriteString(")")
	}
	return sb.String()
}

// String renders a term as a (possibly large) nested expression; for debugging.
func (t *Term) String() string {
	return t.str(0)
}

func (t *Term) str(depth int) string {
	if t.Op == OpConst || t.Op == OpVar {
		return Ref(t)
	}
	if depth > 6 {
		return fmt.Sprintf("t%d…", t.ID)
	}
	var sb strings.Builder
	switch t.Op {
	case OpZext:
		fmt.Fprintf(&sb, "(zext%d %s)", t.W, t.Args[0].str(depth+1))
	case OpSext:
		fmt.Fprintf(&sb, "(sext%d %s)", t.W, t.Args[0].str(depth+1))
	case OpExtract:
		fmt.Fprintf(&sb, "(extract %d %d %s)", t.Val>>8, t.Val&0xff, t.Args[0].str(depth+1))
	default:
		sb.WriteString("(")
		sb.WriteString(opNames[t.Op])
		for _, a := range t.Args {
			sb.WriteString(" ")
			sb.WriteString(a.str(depth + 1))
		}
		sb.WriteString(")")
	}
	return sb.String()
}

// Script renders a standalone SMT-LIB2 script asserting all the given Bool
// terms (shared subterms named once), ending in (check-sat).
func Script(terms []*Term) string {
	var sb strings.Builder
	sb.WriteString("(set-logic QF_BV)\n")
	done := map[int]bool{}
	var walk func(t *Term)
	walk = func(t *Term) {
		if t.Op == OpConst || done[t.ID] {
			return
		}
		done[t.ID] = true
		if t.Op == OpVar {
			fmt.Fprintf(&sb, "(declare-const %s %s)\n", Ref(t), SortName(t.W))
			return
		}
		for _, a := range t.Args {
			walk(a)
		}
		fmt.Fprintf(&sb, "(declare-const %s %s)\n(assert (= %s %s))\n", Ref(t), SortName(t.W), Ref(t), Body(t))
	}
	for _, t := range terms {
		walk(t)
		fmt.Fprintf(&sb, "(assert %s)\n", Ref(t))
	}
	sb.WriteString("(check-sat)\n")
	return sb.String()
}
