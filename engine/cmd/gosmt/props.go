package main

// Registry of checks: which harness runs on which configurations per tier.

const nCoreTables = 18

func curlyOnly(tbl int) bool { return tbl == 2 || tbl == 3 || tbl == 6 }
func hasMedia(tbl int) bool  { return tbl == 8 || tbl == 9 }

var commonAssumptions = []string{
	"symbolic bytes are ASCII (0x00-0x7f); non-ASCII input is outside the claim",
	"route tables are enumerated concrete configurations; requests are symbolic within the stated capacities",
	"package initialisers of go-restful run; those of dependencies do not (stdlib reached only via SSA of pure functions, native calls on constants, or the listed intrinsics/stubs)",
	"log/trace output, runtime.Caller, reflect are stubbed (not observable by the properties)",
	"append growth doubles capacity (no size-class rounding)",
	"a solver answer other than sat/unsat, an (error line, an unsupported construct or an unwinding limit makes the check INCONCLUSIVE (exit 2), never a pass",
}

func routingItems(harness string, stages func(tbl int) []int) func(tier string, seed int) []item {
	return func(tier string, seed int) []item {
		var out []item
		for tbl := 0; tbl < nCoreTables; tbl++ {
			for router := 0; router < 2; router++ {
				if router == 1 && curlyOnly(tbl) {
					continue
				}
				for _, st := range stages(tbl) {
					out = append(out, item{Harness: harness, Cfg: []int{tbl, router, st}})
				}
			}
		}
		return out
	}
}

func properties() map[string]*propDef {
	m := map[string]*propDef{}
	m["C01"] = &propDef{
		ID: "C01",
		Items: routingItems("H_C01", func(tbl int) []int {
			if hasMedia(tbl) {
				return []int{0, 1}
			}
			return []int{0}
		}),
		Bounds: map[string]interface{}{"path_bytes": 12, "path_bytes_header_stage": 8, "segments": 3, "method_bytes": 7,
			"content_type_bytes": 8, "accept_bytes": 10, "accept_ranges": 2, "tables": nCoreTables},
		Assumptions:    commonAssumptions,
		Rule:           "core route tables x {CurlyRouter, RouterJSR311 on its documented forms} x stage (0: path+method symbolic; 1: headers symbolic too); one terminal path = one state",
		RequiredCovers: []string{"invoked", "not-invoked", "unspecified"},
	}
	return m
}
