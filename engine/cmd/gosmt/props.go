package main

// Registry of checks: which harness runs on which configurations per tier.

const nCoreTables = 45

func curlyOnly(tbl int) bool {
	return tbl == 2 || tbl == 3 || tbl == 6 || tbl == 18 || tbl == 22 || tbl == 28 || tbl == 37 || tbl == 43
}
func hasMedia(tbl int) bool {
	return tbl == 8 || tbl == 9 || tbl == 32 || tbl == 33 || tbl == 34 || tbl == 40 || tbl == 44
}

var commonAssumptions = []string{
	"symbolic bytes are ASCII (0x00-0x7f); non-ASCII input is outside the claim",
	"route tables are enumerated concrete configurations; requests are symbolic within the stated capacities",
	"package initialisers of go-restful run; those of dependencies do not (stdlib reached only via SSA of pure functions, native calls on constants, or the listed intrinsics/stubs)",
	"log/trace output, runtime.Caller, reflect are stubbed (not observable by the properties)",
	"append growth doubles capacity (no size-class rounding)",
	"a solver answer other than sat/unsat, an (error line, an unsupported construct or an unwinding limit makes the check INCONCLUSIVE (exit 2), never a pass",
}

// generatedFor returns the generated tables (configuration numbers >= 1000) a
// tier runs: a seeded sample in quick, the whole grammar in thorough.
func generatedFor(tier string, seed int, quickN int, keep func(genInfo) bool) []genInfo {
	if tier == "thorough" {
		return genSample(seed, 1<<30, keep)
	}
	return genSample(seed, quickN, keep)
}

func routingItems(harness string, stages func(tbl int) []int) func(tier string, seed int) []item {
	return func(tier string, seed int) []item {
		var out []item
		for tbl := 0; tbl < nCoreTables; tbl++ {
			for router := 0; router < 2; router++ {
				if router == 1 && curlyOnly(tbl) {
					continue
				}
				for _, st := range stages(tbl) {
					if tier == "thorough" && st != 3 {
						st += 10 // thorough bounds: path 20 bytes, 5 segments
					}
					out = append(out, item{Harness: harness, Cfg: []int{tbl, router, st}})
				}
			}
		}
		for _, g := range generatedFor(tier, seed, 24, func(g genInfo) bool { return true }) {
			for router := 0; router < 2; router++ {
				if router == 1 && g.curly {
					continue
				}
				out = append(out, item{Harness: harness, Cfg: []int{g.idx, router, 0}, Label: "generated table (pair of templates from the grammar on service /t)"})
			}
		}
		// generated root-path tables: one or two WebServices with roots from the root grammar
		for _, g := range genRootSample(tier, seed, 12, func(g genRootInfo) bool { return true }) {
			for router := 0; router < 2; router++ {
				if router == 1 && (g.curly || g.nullable) {
					continue
				}
				out = append(out, item{Harness: harness, Cfg: []int{g.idx, router, 0}, Label: "generated root-path table (one or two WebServices, roots from the root grammar, routes GET / and GET /e)"})
			}
		}
		// generated media tables (header stage): 528 unordered pairs; a seeded sample of 6 in quick
		if harness == "H_C01" || harness == "H_C02" {
			const nMedia = 32 * 33 / 2
			var pick []int
			if tier == "thorough" {
				for g := 0; g < nMedia; g++ {
					pick = append(pick, g)
				}
			} else {
				x := uint64(seed)*2654435761 + 99
				for len(pick) < 6 {
					x = x*6364136223846793005 + 1442695040888963407
					pick = append(pick, int((x>>33)%nMedia))
				}
			}
			for _, g := range pick {
				out = append(out, item{Harness: harness, Cfg: []int{5000 + g, (g + seed) % 2, 1}, Label: "generated media table (two routes on /t/a with methods and Consumes/Produces lists from the grammar), header stage"})
			}
		}
		return out
	}
}

func properties() map[string]*propDef {
	m := map[string]*propDef{}
	m["C01"] = &propDef{
		ID: "C01",
		Items: routingItems("H_C01", func(tbl int) []int {
			if hasMedia(tbl) {
				return []int{0, 1}
			}
			return []int{0}
		}),
		Bounds: map[string]interface{}{"path_bytes": 12, "path_bytes_header_stage": 8, "segments": 3, "method_bytes": 7,
			"content_type_bytes": 8, "accept_bytes": 10, "accept_ranges": 2, "tables": nCoreTables},
		Assumptions:    commonAssumptions,
		Rule:           "core route tables x {CurlyRouter, RouterJSR311 on its documented forms} x stage (0: path+method symbolic; 1: headers symbolic too); one terminal path = one state",
		RequiredCovers: []string{"invoked", "not-invoked", "unspecified"},
	}
	m["C02"] = &propDef{
		ID: "C02",
		Items: routingItems("H_C02", func(tbl int) []int {
			if hasMedia(tbl) {
				return []int{0, 1}
			}
			return []int{0}
		}),
		Bounds: map[string]interface{}{"path_bytes": 12, "segments": 3, "method_bytes": 7,
			"content_type_bytes": 6, "accept_bytes": 8, "accept_ranges": 2, "content_length_header_bytes": 2, "content_length_field": "[-1,2]", "tables": nCoreTables},
		Assumptions:    commonAssumptions,
		Rule:           "core route tables x {CurlyRouter, RouterJSR311} x stage (0: path+method symbolic, headers absent; 1: one concrete URL per route, method/Content-Type/Accept/Content-Length symbolic); each dispatch repeated with trace logging on",
		RequiredCovers: []string{"invoked", "404", "405", "415", "406", "definite", "indefinite"},
	}
	routingBounds := map[string]interface{}{"path_bytes": "12 (thorough, core tables: 20)", "segments": "3 (thorough, core tables: 5)", "method_bytes": 7, "core_tables": nCoreTables,
		"generated_tables": "pairs of templates over {a, b, {v}, {v:[0-9]+}, {v:[0-9]*}, ab{v}ba, {v}.x, p{v}, a:go, {v}:go, {v:*}} with 1-2 segments on service /t, same or different methods: 24 by seed in quick, all 2244 in thorough", "generated_root_tables": "one or two WebServices with root paths from {/a, /a/b, /{v}, /{v:[0-9]+}, /{v}.x, /p{v}, /a/{v}, /{v}/b, /a/{v}.x, /{v:[0-9]*}, /, /a/{v:[0-9]+}} (78 tables: 12 by seed in quick, all in thorough)"}
	m["C04"] = &propDef{
		ID: "C04",
		Items: func(tier string, seed int) []item {
			it := routingItems("H_C04", func(tbl int) []int {
				st := []int{0}
				if tier == "thorough" {
					st = []int{0, 3}
				}
				if curlyOnly(tbl) || tbl == 0 || tbl == 15 {
					st = append(st, 5) // the same after Container.Router was called again (other router, then this one)
				}
				return st
			})(tier, seed)
			return it
		},
		Bounds:         routingBounds,
		Assumptions:    commonAssumptions,
		Rule:           "core route tables x routers; GET request with symbolic path; stage 3 (thorough) adds the substitute-back round trip at path capacity 8",
		RequiredCovers: []string{"invoked", "not-invoked", "judged", "router-set-again"},
	}
	m["C14"] = &propDef{
		ID: "C14",
		Items: func(tier string, seed int) []item {
			var out []item
			for tbl := 0; tbl < nCoreTables; tbl++ {
				for router := 0; router < 2; router++ {
					if router == 1 && (curlyOnly(tbl) || tbl == 5) {
						continue // RouterJSR311: templates without tail wildcard only
					}
					st := 0
					if tier == "thorough" {
						st = 10
					}
					out = append(out, item{Harness: "H_C14", Cfg: []int{tbl, router, st}})
				}
			}
			for _, g := range generatedFor(tier, seed, 24, func(g genInfo) bool { return true }) {
				for router := 0; router < 2; router++ {
					if router == 1 && (g.curly || g.tail) {
						continue
					}
					out = append(out, item{Harness: "H_C14", Cfg: []int{g.idx, router, 0}, Label: "generated table"})
				}
			}
			for _, g := range genRootSample(tier, seed, 12, func(g genRootInfo) bool { return true }) {
				out = append(out, item{Harness: "H_C14", Cfg: []int{g.idx, 0, 0}, Label: "generated root-path table"})
				if !g.curly && !g.nullable {
					out = append(out, item{Harness: "H_C14", Cfg: []int{g.idx, 1, 0}, Label: "generated root-path table, RouterJSR311"})
				}
			}
			for router := 0; router < 2; router++ {
				for mode := 0; mode < 3; mode++ {
					out = append(out, item{Harness: "H_C14_seq", Cfg: []int{router, mode}, Label: "p and p/ after a history: optional earlier requests for p and p/, then routes added to the WebService (mode 0: without dynamic routes, 1: with, 2: with, and one removed); router, mode"})
				}
			}
			return out
		},
		Bounds:         map[string]interface{}{"path_bytes": 11, "segments": 3, "method_bytes": 7, "tables": nCoreTables, "history": "H_C14_seq: 0-2 earlier requests, then 3 routes added (1 removed), path 9 bytes"},
		Assumptions:    commonAssumptions,
		Rule:           "core route tables x routers; product of two dispatches: symbolic path p (no trailing slash, some non-empty segment) and p+\"/\", symbolic method",
		RequiredCovers: []string{"invoked", "not-invoked"},
	}
	m["C18"] = &propDef{
		ID: "C18",
		Items: func(tier string, seed int) []item {
			var out []item
			for _, tbl := range []int{0, 1, 7, 8, 9, 10, 15, 16, 19, 21, 24, 25, 26, 27, 29, 30, 32, 33, 34} {
				st18 := 0
				if tier == "thorough" {
					st18 = 10
				}
				out = append(out, item{Harness: "H_C18", Cfg: []int{tbl, st18}})
				if hasMedia(tbl) {
					out = append(out, item{Harness: "H_C18", Cfg: []int{tbl, 1}})
				}
			}
			for _, g := range generatedFor(tier, seed, 24, func(g genInfo) bool { return g.plain }) {
				out = append(out, item{Harness: "H_C18", Cfg: []int{g.idx, 0}, Label: "generated table of the common fragment"})
			}
			for _, g := range genRootSample(tier, seed, 6, func(g genRootInfo) bool { return g.literal }) {
				out = append(out, item{Harness: "H_C18", Cfg: []int{g.idx, 0}, Label: "generated root-path table with literal roots"})
			}
			return out
		},
		Bounds:         map[string]interface{}{"path_bytes": 12, "segments": 3, "method_bytes": 7, "content_type_bytes": 6, "accept_bytes": 8, "tables": 19},
		Assumptions:    commonAssumptions,
		Rule:           "core tables of the common fragment (literal roots, literal/plain-variable segments) x stage; twin containers (CurlyRouter, RouterJSR311) get the same symbolic request",
		RequiredCovers: []string{"invoked", "not-invoked"},
	}
	m["C03"] = &propDef{
		ID: "C03",
		Items: func(tier string, seed int) []item {
			var out []item
			for tbl := 0; tbl < nCoreTables; tbl++ {
				if tbl == 9 || tbl == 12 || tbl == 41 {
					continue // duplicate (method, template) pair / root paths of the same shape: excluded by the statement
				}
				for router := 0; router < 2; router++ {
					if router == 1 && (curlyOnly(tbl) || (tbl >= 11 && tbl <= 14) || tbl == 20) {
						continue // RouterJSR311: route level and literal roots only
					}
					perms := []int{1}
					if tbl == 7 {
						perms = []int{1, 3}
						if tier == "thorough" {
							perms = []int{1, 2, 3, 4, 5}
						}
					}
					for _, p := range perms {
						if tier == "thorough" {
							p += 100 // thorough bounds
						}
						out = append(out, item{Harness: "H_C03", Cfg: []int{tbl, router, p}})
					}
					if hasMedia(tbl) {
						out = append(out, item{Harness: "H_C03", Cfg: []int{tbl, router, 1001}, Label: "header stage (concrete sample URLs; Content-Type, Accept symbolic), routes registered in reverse order"})
					}
				}
			}
			for _, g := range generatedFor(tier, seed, 24, func(g genInfo) bool { return !g.single }) {
				for router := 0; router < 2; router++ {
					if router == 1 && g.curly {
						continue
					}
					out = append(out, item{Harness: "H_C03", Cfg: []int{g.idx, router, 1}, Label: "generated table, routes registered in reverse order"})
				}
			}
			// the order product is cheap: every pair of root paths, in both tiers
			for _, g := range genRootSample("thorough", seed, 12, func(g genRootInfo) bool { return !g.single }) {
				out = append(out, item{Harness: "H_C03", Cfg: []int{g.idx, 0, 1}, Label: "generated root-path table, WebServices registered in reverse order"})
				if g.literal {
					out = append(out, item{Harness: "H_C03", Cfg: []int{g.idx, 1, 1}, Label: "generated root-path table (literal roots), RouterJSR311"})
				}
			}
			return out
		},
		Bounds:         routingBounds,
		Assumptions:    commonAssumptions,
		Rule:           "core tables x routers x registration permutation (enumerated); twin containers registered in two orders get the same symbolic request; specificity checked against every other eligible route",
		RequiredCovers: []string{"invoked", "not-invoked", "specificity-compared"},
	}
	m["C17"] = &propDef{
		ID: "C17",
		Items: func(tier string, seed int) []item {
			var out []item
			for _, tbl := range []int{0, 1, 7, 10, 16, 19, 21, 24, 25, 26, 29, 30} {
				for router := 0; router < 2; router++ {
					r := router
					if tier == "thorough" {
						r += 10 // thorough bounds
					}
					out = append(out, item{Harness: "H_C17", Cfg: []int{tbl, r}})
				}
			}
			return out
		},
		Bounds:         map[string]interface{}{"path_bytes": 12, "segments": 3, "methods": "all methods of the table plus one foreign method", "tables": 12},
		Assumptions:    commonAssumptions,
		Rule:           "tables of the fragment (literal roots incl. nested, literal/plain-variable segments) x routers; per symbolic URL one dispatch per method, one OPTIONS dispatch through OPTIONSFilter, and a filter-less twin",
		RequiredCovers: []string{"405", "options-nonempty", "undeclared-method-405"},
	}
	m["C08"] = &propDef{
		ID: "C08",
		Items: func(tier string, seed int) []item {
			var out []item
			for cfg := 0; cfg < 6; cfg++ {
				out = append(out, item{Harness: "H_C08", Cfg: []int{cfg}, Label: "allowed domains = cfg%3 symbolic entries; predicate configured iff cfg>=3"})
				out = append(out, item{Harness: "H_C08", Cfg: []int{100 + cfg}, Label: "the same with Origin, entries and predicate string of <= 11 bytes"})
			}
			out = append(out, item{Harness: "H_C08_two", Cfg: []int{0}, Label: "two CORS filters in one chain: container (no restriction) and WebService (one symbolic domain, cookies)"})
			return out
		},
		Bounds: map[string]interface{}{"origin_bytes": "6 and 11", "allowed_domain_entries": "0..2 symbolic strings of <= 6 / <= 11 bytes", "predicate": "nil or equality with a symbolic string of <= 6 / <= 11 bytes",
			"method_bytes": 7, "access_control_request_method_bytes": 4},
		Assumptions:    append([]string{"AllowedDomainFunc ranges over the predicates 'equals s' for a symbolic string s (uninterpreted predicates are not expressible in QF_BV)"}, commonAssumptions...),
		Rule:           "CORS filter as container filter in front of a marker filter and a 3-route service, plus a filter-less twin; Origin, allowed-domain entries, predicate string, cookies flag, method and requested method symbolic",
		RequiredCovers: []string{"allowed", "refused", "granted", "not-granted", "inner-refuses", "inner-allows", "predicate-changed-its-mind"},
	}
	m["C09"] = &propDef{
		ID: "C09",
		Items: func(tier string, seed int) []item {
			var out []item
			for cfg := 0; cfg < 4; cfg++ {
				out = append(out, item{Harness: "H_C09", Cfg: []int{cfg}, Label: "cfg%2==0: AllowedMethods configured [GET,PUT], else computed from the container; cfg>=2: header wildcard configured"})
				if tier == "thorough" {
					out = append(out, item{Harness: "H_C09", Cfg: []int{100 + cfg}, Label: "the same with <= 3 requested headers in <= 13 bytes and an allowed-header entry of <= 6 bytes"})
				}
				if cfg < 2 || tier == "thorough" {
					out = append(out, item{Harness: "H_C09", Cfg: []int{4 + cfg}, Label: "the same configuration, the request's own Host being the host the Origin names (no second header line, no earlier preflight)"})
				}
			}
			return out
		},
		Bounds: map[string]interface{}{"requested_method_bytes": 5, "requested_headers_bytes": 8, "requested_headers": 2, "allowed_headers": "one symbolic entry (<= 4 bytes) + X-B (+ *)",
			"method_bytes": 7, "urls": 2, "sequence": "optional earlier preflight to the other URL"},
		Assumptions:    commonAssumptions,
		Rule:           "allowed origin fixed; method, Access-Control-Request-Method/-Headers, one allowed-header entry, cookies flag, target URL and an optional earlier preflight to the other URL are symbolic",
		RequiredCovers: []string{"preflight", "preflight-granted", "preflight-refused", "actual", "after-warmup", "two-header-lines", "origin-names-the-request-host"},
	}
	m["C06"] = &propDef{
		ID: "C06",
		Items: func(tier string, seed int) []item {
			cfgs := [][]int{{0, 0, 0, -1, 0}, {1, 1, 1, -1, 0}, {1, 1, 1, 0, 0}, {1, 1, 1, 1, 0}, {1, 1, 1, 2, 0}, {2, 0, 1, -1, 1}, {1, 1, 1, -1, 1}, {0, 1, 1, -1, 1},
				{1, 1, 1, -1, 2}, {2, 1, 0, 0, 2}, {0, 0, 0, -1, 2}, {2, 2, 2, -1, 0}, {2, 1, 2, 1, 0}, {3, 1, 0, -1, 0}, {3, 0, 1, -1, 0}, {1, 1, 1, -1, 3}, {2, 0, 0, 0, 3}}
			if tier == "thorough" {
				cfgs = append(cfgs, []int{2, 2, 2, 0, 0}, []int{2, 2, 2, 3, 0}, []int{2, 2, 2, 5, 0}, []int{2, 2, 2, -1, 1}, []int{2, 2, 2, -1, 2}, []int{3, 3, 3, -1, 0})
			}
			var out []item
			for _, c := range cfgs {
				out = append(out, item{Harness: "H_C06", Cfg: c, Label: "container/service/route filter counts, index of the middleware filter (-1 none), mode (0 routed, 1 routing failure, 2 HandleWithFilter via ServeHTTP, 3 routing failure reported as a plain error by a custom RouteSelector)"})
			}
			return out
		},
		Bounds:         map[string]interface{}{"filters_per_level": "0..2 (thorough 3)", "behaviour_bits_per_filter": "stop + (replace pair | set attribute)", "sequence": "optional earlier all-pass request, to the same route or to a sibling route (same method and path, told apart by a condition) with its own route filter"},
		Assumptions:    append([]string{"ServeMux is modelled by the Go 1.21 matching rules (go.mod says go 1.13)"}, commonAssumptions...),
		Rule:           "enumerated filter counts per level x middleware position x entry mode; every filter's pass-on/replace/attribute behaviour is a symbolic bit",
		RequiredCovers: []string{"handler-ran", "routing-failure", "after-warmup"},
	}
	m["C05"] = &propDef{
		ID: "C05",
		Items: func(tier string, seed int) []item {
			var out []item
			add := func(prod, mode, capN, nparts int) {
				for p := 0; p < nparts; p++ {
					out = append(out, item{Harness: "H_C05", Cfg: []int{prod, mode, capN, p, nparts},
						Label: "Produces list, mode (0: <=1 parameter per range, 1: <=2, 2: built-in names + symbolic tail, 4: registered name + symbolic suffix, then a registered name with a low weight), Accept capacity, length partition"})
				}
			}
			seq := func(cfg, capN int) {
				out = append(out, item{Harness: "H_C05_seq", Cfg: []int{cfg, capN},
					Label: "two requests with the same symbolic Accept header (+10/+20: the earlier one carries only its first/second range) to routes with different Produces lists (0: two paths, 1: one path told apart by Consumes, 2: built-in media types, 3: a Produces entry without writer), Accept capacity"})
			}
			if tier == "quick" {
				seq(0, 7)
				seq(1, 7)
				seq(2, 0)
				seq(3, 7)
				// the earlier request carries only the first (+10) / only the second (+20) range of the header
				seq(10, 7)
				seq(20, 7)
				seq(11, 7)
				seq(23, 7)
			} else {
				seq(0, 9)
				seq(1, 9)
				seq(2, 0)
				seq(3, 8)
				for _, fa := range []int{10, 20} {
					seq(fa+0, 7)
					seq(fa+1, 7)
					seq(fa+2, 0)
					seq(fa+3, 7)
				}
			}
			if tier == "quick" {
				add(0, 0, 8, 9)
				add(1, 0, 8, 18)
				add(2, 0, 8, 18)
				add(4, 2, 3, 2)
				add(1, 3, 1, 1)
				add(13, 0, 4, 1)
				add(14, 0, 4, 1)
				add(1, 4, 2, 1)
			} else {
				add(1, 4, 2, 1)
				add(2, 4, 2, 1)
				add(13, 0, 6, 7)
				add(14, 0, 6, 7)
				add(1, 3, 3, 1)
				add(2, 3, 3, 1)
				add(0, 0, 9, 20)
				add(1, 0, 13, 28)
				add(2, 0, 11, 24)
				add(1, 1, 10, 22)
				add(3, 2, 5, 6)
				add(4, 2, 5, 6)
			}
			return out
		},
		Bounds: map[string]interface{}{"accept_bytes": "8 (thorough up to 13)", "ranges": 2, "parameters_per_range": "1 (mode 1: 2)", "produces": "[a/x], [a/j,a/x], [a/x,a/j], [application/xml], [application/json,application/xml]",
			"registered_writers": "{a/j (JSON), a/x (XML)} or the built-in pair", "q_values": "D or D.D{1,3} judged; other spellings unspecified; ParseFloat summarised on DIGIT{1,2}(.DIGIT{0,3})? / surely-invalid, the rest ends the path as unmodelled"},
		Assumptions: append([]string{"JSON/XML marshalling is stubbed (arbitrary output; it fails exactly for the harness type vBadEntity, whose marshalling methods fail natively too)", "map iteration order is an explicit nondeterministic choice (all permutations explored)",
			"DefaultResponseMimeType is empty except in the two configurations that set it (JSON against Produces [xml]; XML against Produces [json, xml])"}, commonAssumptions...),
		Rule:           "Produces list x Accept shape x capacity, partitioned by header length; the Accept header is a flat symbolic string; the entity-writer decision is taken twice per request with independent map orders; H_C05_seq: a second request (same Accept header, symbolic choice of route) is judged after a first one was served",
		RequiredCovers: []string{"admitted", "not-admitted", "definite"},
	}
	m["C07"] = &propDef{
		ID: "C07",
		Items: func(tier string, seed int) []item {
			var out []item
			for entry := 0; entry < 5; entry++ {
				for cenc := 0; cenc < 2; cenc++ {
					for renc := 0; renc < 3; renc++ {
						if (entry == 2 || entry == 3) && renc != 0 {
							continue // plain handlers have no route
						}
						for kind := 0; kind < 4; kind++ {
							if (entry == 2 || entry == 3) && kind == 1 {
								continue
							}
							provs := []int{(entry + cenc + renc + kind + seed) % 3}
							if tier == "thorough" {
								provs = []int{0, 1, 2}
							}
							for _, p := range provs {
								out = append(out, item{Harness: "H_C07", Cfg: []int{entry, cenc, renc, kind, p},
									Label: "entry (Dispatch, ServeHTTP, Handle, HandleWithFilter, nested behind an encoding outer container), container encoding, route setting (unset/off/on), outcome kind (handler, routing error, panic before/after output), provider"})
							}
						}
					}
				}
			}
			return out
		},
		Bounds: map[string]interface{}{"accept_encoding_bytes": 12, "chunks": "1..2 of <= 3 bytes", "pre_set_content_encoding": "symbolic flag"},
		Assumptions: append([]string{"compress/gzip and compress/zlib writers are typestate stubs: Reset, Write*, Close emits one opaque token ENC(coding, payload) to the destination; that a real stream decodes to the concatenation of the writes is assumed, not checked",
			"ServeMux is modelled by the Go 1.21 matching rules", "sync.Pool is a LIFO multiset stub"}, commonAssumptions...),
		Rule:           "entry point x container switch x route switch x outcome kind x provider (quick: one provider per combination chosen by seed; thorough: all three), Accept-Encoding, payload chunks and a pre-set Content-Encoding symbolic",
		Exhaustive:     true,
		RequiredCovers: []string{"encoded", "identity", "preset", "escaped", "broken-client", "after-warmup", "handler-never-writes"},
	}
	m["C10"] = &propDef{
		ID: "C10",
		Items: func(tier string, seed int) []item {
			var out []item
			shapes := [][]int{{1, 1, 1}, {0, 0, 0}, {2, 0, 1}}
			if tier == "thorough" {
				shapes = append(shapes, []int{2, 2, 2}, []int{0, 2, 0}, []int{1, 0, 2})
			}
			for _, sh := range shapes {
				for recov := 0; recov < 3; recov++ {
					for enc := 0; enc < 2; enc++ {
						for entry := 0; entry < 3; entry++ {
							out = append(out, item{Harness: "H_C10", Cfg: []int{sh[0], sh[1], sh[2], recov, enc, entry},
								Label: "container/service/route filter counts, recovery (0 off, 1 on with a custom handler, 2 on with the default handler), container encoding on, entry (Dispatch, ServeHTTP, Dispatch of a request that fails routing)"})
						}
					}
				}
			}
			return out
		},
		Bounds: map[string]interface{}{"filters_per_level": "0..2", "panic_positions": "before/after each filter passes control on, handler before/after writing, none (symbolic choice)",
			"behaviour_bits_per_filter": "stop + (replace pair | set attribute)", "follow_up_requests": 1},
		Assumptions: append([]string{"compressors are typestate stubs (see C07)", "sync.RWMutex is modelled by reader/writer counters; 'no lock left held' is the counters being zero",
			"plain Handle/HandleWithFilter handlers have no route chain and no recover point and are not part of this property's chain"}, commonAssumptions...),
		Rule:           "filter counts x recovery switch x encoding switch x entry point; the panic position is a symbolic choice over every position of the chain; each run is followed by a normal request on the same container",
		RequiredCovers: []string{"raised", "not-raised", "recovery-on", "recovery-off", "nothing-written-before", "partial-output-before"},
	}
	m["C11"] = &propDef{
		ID: "C11",
		Items: func(tier string, seed int) []item {
			const n = 9 // root path menu
			var out []item
			nhist := 0
			add := func(router int, ops ...int) {
				nhist++
				// variant 0: GET probe after the history. One more variant rotates through early probe position x
				// probe method x late switch to dynamic routes; histories of two and more operations also get an
				// OPTIONS probe sent before the last operation and again at the end.
				variants := []int{0, 1 + (nhist*7+seed)%19}
				if len(ops) >= 3 {
					variants = append(variants, len(ops)-1) // GET probe sent before the second-to-last operation as well
				}
				if len(ops) >= 2 {
					variants = append(variants, 5+len(ops))
					if last := ops[len(ops)-1]; last >= 50 && last != 90 {
						variants = append(variants, 25+len(ops)) // the same with dynamic routes switched on only before the first route change
					}
				}
				if last := ops[len(ops)-1]; len(ops) >= 3 && last >= 70 && last < 90 {
					variants = append(variants, len(ops)) // GET probe sent right before the final RemoveRoute as well
				}
				if tier == "thorough" {
					variants = append(variants, 1+(nhist*7+seed+5)%19, 10+len(ops))
				}
				seen := map[int]bool{}
				for _, v := range variants {
					if seen[v] {
						continue
					}
					seen[v] = true
					cfg := []int{0, 0, 0, 0, router, v}
					copy(cfg, ops)
					out = append(out, item{Harness: "H_C11", Cfg: cfg, Label: "history op1..op4 (10+i Add, 30+i Remove, 50+i Route GET /x, 70+i RemoveRoute GET /x, 110+i Route GET /x/ on root menu entry i; 90 Handle(/plain)), router, variant (early probe position + 5*OPTIONS probe + 10*(dynamic routes switched on: 0 at once, 1 after the first routes, 2 before the first route change))"})
				}
			}
			for i := 0; i < n; i++ {
				add(0, 10+i)
				add(0, 10+i, 50+i)
				add(0, 10+i, 50+i, 70+i)
				add(0, 10+i, 50+i, 50+i, 70+i)
				add(0, 10+i, 50+i, 50+i)
				add(0, 10+i, 50+i, 110+i, 70+i)
				add(0, 10+i, 50+i, 70+i, 110+i) // a route replaced by another one: the number of routes is the same again
				add(0, 10+i, 110+i, 50+i)
				add(0, 10+i, 90)
				if i == 1 || i == 5 || tier == "thorough" {
					// route changes under RouterJSR311 as well
					add(1, 10+i, 50+i, 70+i)
					add(1, 10+i, 50+i, 70+i, 110+i)
				}
				for j := 0; j < n; j++ {
					if i == j {
						continue
					}
					add(0, 10+i, 10+j)
					add(0, 10+i, 10+j, 30+i)
					add(0, 10+i, 10+j, 30+j)
					if (i+j+seed)%4 == 0 || tier == "thorough" {
						add(1, 10+i, 10+j, 30+i)
						add(0, 10+i, 90, 10+j, 30+i)
						add(0, 10+i, 10+j, 30+i, 10+i)
					}
					if tier == "thorough" {
						for k := 0; k < n; k++ {
							if k == i || k == j {
								continue
							}
							add(0, 10+i, 10+j, 10+k)
							add(0, 10+i, 10+j, 10+k, 30+j)
						}
					}
				}
			}
			return out
		},
		Bounds: map[string]interface{}{"history_length": "<= 4 operations from the empty container", "root_path_menu": []string{"/", "/a", "/a/", "/a/b", "/ab", "/{x}", "/a/{x}", "/a/{x}/c", "/a/{x}/d"},
			"probe_path_bytes": 8, "probe_segments": 3, "probe_method": "GET or OPTIONS (through the OPTIONS filter)", "early_probe": "the same request sent once before one of the operations (position by variant)"},
		Assumptions: append([]string{"ServeMux is modelled by the Go 1.21 matching rules; probe paths that are not clean (the real mux redirects them) end the path as unmodelled",
			"histories are enumerated explicitly (the inductive formulation of DESIGN 5/C11 was not built); the probe request is symbolic"}, commonAssumptions...),
		Rule:           "enumerated histories over Add/Remove/Route/RemoveRoute/Handle on the root path menu (quick: all ordered pairs with each removal, a seeded quarter with a fourth operation or RouterJSR311; thorough: all, plus all triples); the history-built container and a fresh one with the model's content get the same symbolic probe through Dispatch and ServeHTTP; per history the variants GET-after-history, one rotating (early probe position x method x late dynamic switch) and OPTIONS-before-the-last-operation",
		RequiredCovers: []string{"dispatch-routed", "serve-routed", "serve-404"},
	}
	m["C19"] = &propDef{
		ID: "C19",
		Items: func(tier string, seed int) []item {
			var out []item
			for tbl := 0; tbl < nCoreTables; tbl++ {
				for router := 0; router < 2; router++ {
					if router == 1 && curlyOnly(tbl) {
						continue
					}
					r := router
					if tier == "thorough" {
						r += 10 // thorough bounds
					}
					out = append(out, item{Harness: "H_C19_route", Cfg: []int{tbl, r}, Label: "core table, router (+10: thorough bounds)"})
				}
			}
			for cfg := 0; cfg < 4; cfg++ {
				out = append(out, item{Harness: "H_C19_cors", Cfg: []int{cfg}, Label: "cfg%2==0: AllowedMethods configured; cfg>=2: OPTIONSFilter installed too"})
			}
			out = append(out, item{Harness: "H_C19_attrs", Cfg: []int{2}}, item{Harness: "H_C19_attrs", Cfg: []int{3}})
			for _, sh := range [][]int{{1, 1, 1}, {3, 1, 0}, {3, 0, 1}, {2, 1, 1}, {5, 1, 1}} {
				out = append(out, item{Harness: "H_C19_chain", Cfg: sh, Label: "container/service/route filter counts (3 and 5 container filters leave spare capacity in the filter slice)"})
			}
			for kind := 0; kind < 5; kind++ {
				for router := 0; router < 2; router++ {
					for entry := 0; entry < 2; entry++ {
						out = append(out, item{Harness: "H_C19_conc", Cfg: []int{kind, router, entry}, Label: "two requests in flight after a warm-up request: kind (filters at three levels, CORS+OPTIONS preflights, encoded responses, entities by Accept, dynamic-routes service), router, entry"})
					}
				}
			}
			return out
		},
		Bounds: map[string]interface{}{"path_bytes": 12, "segments": 3, "method_bytes": 7, "requests_per_history": "2..3 on one container", "tables": nCoreTables},
		Assumptions: append([]string{"frame monitor: every store executed while serving is classified by the allocation epoch of its target; request-vs-request concurrency is covered by the argument of DESIGN 2.7 (no store to state that outlives the request => interleavings are equivalent to a sequential order) and, for five request shapes, by the event-order race and stuck-state queries over two requests in flight (H_C19_conc; sync.Pool hands every recorded thread a new object)",
			"natively the frame monitor's job is done by a reflection fingerprint of everything reachable from the container before and after the request"}, commonAssumptions...),
		Rule:           "routing family: same symbolic request three times on one container (second time after scribbling on the first handler's parameters, third time with trace on); CORS/OPTIONS family: symbolic first request, then a symbolic second request compared with a fresh twin; attribute family: n identical requests through an attribute-setting filter; a frame monitor runs around the first dispatch of each",
		RequiredCovers: []string{"invoked", "not-invoked", "preflight-granted", "served", "concurrent-requests"},
	}
	m["C13"] = &propDef{
		ID: "C13",
		Items: func(tier string, seed int) []item {
			var out []item
			threads := []int{2}
			if tier == "thorough" {
				threads = []int{2, 3}
			}
			for capacity := 0; capacity <= 2; capacity++ {
				for fill := 0; fill <= capacity; fill++ {
					for _, nt := range threads {
						for kind := 0; kind < 3; kind++ {
							out = append(out, item{Harness: "H_C13_conc", Cfg: []int{capacity, fill, nt, kind}, Label: "cache capacity, initial fill, threads, kind (gzip writer, zlib writer, gzip reader)"})
						}
					}
				}
			}
			for enc := 0; enc < 3; enc++ {
				for prov := 0; prov < 3; prov++ {
					out = append(out, item{Harness: "H_C13_read", Cfg: []int{enc, prov}, Label: "request Content-Encoding (none, gzip, deflate), provider"})
				}
			}
			// value level under concurrency: interleaving exploration through the ledger
			pre := 2
			if tier == "thorough" {
				pre = 3
			}
			for prov := 0; prov < 3; prov++ {
				for kind := 0; kind < 10; kind++ {
					for _, nt := range threads {
						if nt == 3 && kind >= 3 {
							continue
						}
						p := pre
						if nt == 3 && kind == 2 && prov == 2 && p > 2 {
							p = 2 // every acquisition misses the empty cache and builds a reader through the provider: 3 preemptions exceed the path limit
						}
						out = append(out, item{Harness: "H_C13_sched", Cfg: []int{prov, nt, kind, p}, Label: "interleaving exploration: provider, threads, kind (gzip writer, zlib writer, gzip reader: acquire-work-release; 3/4: encoded responses through a container via Dispatch, gzip/deflate; 5/6: via ServeHTTP; 7-9: as 0-2 after a sequential burst of acquisitions and releases that overflows the cache), preemption bound"})
					}
				}
			}
			// the ledger around encoded responses: every entry point and outcome kind, all providers
			for entry := 0; entry < 4; entry++ {
				for kind := 0; kind < 4; kind++ {
					if entry >= 2 && kind == 1 {
						continue
					}
					for prov := 0; prov < 3; prov++ {
						out = append(out, item{Harness: "H_C07", Cfg: []int{entry, 1, 0, kind, prov}, Label: "C07 harness with the compressor ledger (entry, container encoding on, route unset, outcome kind, provider)"})
					}
				}
			}
			return out
		},
		Bounds: map[string]interface{}{"threads": "2 (thorough 3), each Acquire then Release once", "cache_capacity": "0..2", "initial_fill": "0..capacity",
			"sequential":    "ledger provider around the real providers on every C07 outcome kind and on two consecutive ReadEntity calls",
			"interleavings": "H_C13_sched: 2 (thorough 3) threads using a provider through the ledger, or 2 encoded responses in flight; context switches at every provider call and lock acquisition, <= 2 (thorough 3) preemptions"},
		Assumptions: append([]string{"event-order encoding: each thread body runs alone in recording mode; channel operations get symbolic results that the schedule formula constrains (len = initial + sends before - receives before; send enabled iff below capacity); timestamps are 8-bit vectors",
			"the Go memory model is not modelled: channel operations are atomic events", "sync.Pool is a multiset stub (its internals are trusted); SyncPoolCompessors is only covered sequentially",
			"'never hands out an object still in use' and 'concurrent encoded responses each decode to their own payload' are decided on the value level by bounded interleaving exploration (DESIGN 2.8b) with switch points at provider calls (each call of the shipped providers performs one channel or pool operation) and lock acquisitions; interleavings inside one provider call are left to the event-order queries",
			"a blocked-forever schedule is confirmed natively by running the threads up to 400 times with a watchdog"}, commonAssumptions...),
		Rule:           "bounded cache: capacity x initial fill x thread count x object kind, all schedules decided by one stuck-state query per combination of thread paths; sequential: ledger over encoded responses and request decoding for all three providers",
		RequiredCovers: []string{"threads-analysed", "ran", "read", "encoded", "after-a-burst"},
	}
	m["C12"] = &propDef{
		ID: "C12",
		Items: func(tier string, seed int) []item {
			var out []item
			for op := 0; op < 4; op++ {
				for router := 0; router < 2; router++ {
					for entry := 0; entry < 2; entry++ {
						for target := 0; target < 3; target++ {
							out = append(out, item{Harness: "H_C12", Cfg: []int{op, router, entry, target}, Label: "mutator (Add, Remove, Route, RemoveRoute), router, entry (Dispatch/ServeHTTP), request to the changed service / another service / OPTIONS request through OPTIONSFilter"})
							if tier == "thorough" {
								out = append(out, item{Harness: "H_C12", Cfg: []int{op, router + 10, entry, target}, Label: "the same with a third thread performing a second change of another kind"})
							}
							pre := 2
							if tier == "thorough" {
								pre = 4
							}
							sops := []int{op}
							if op == 3 {
								sops = []int{3, 4, 5} // the interleaving harness knows two more mutators
							}
							for _, sop := range sops {
								out = append(out, item{Harness: "H_C12_sched", Cfg: []int{sop, router, entry, target, pre}, Label: "interleaving exploration: mutator (Add, Remove, Route, RemoveRoute, Remove+Route on the removed service, Route adding a method to an existing path), router, entry, target of the concurrent request, preemption bound"})
								if tier == "thorough" {
									out = append(out, item{Harness: "H_C12_sched", Cfg: []int{sop, router + 10, entry, target, 3}, Label: "interleaving exploration with a third thread (a second change of another kind), 3 preemptions"})
								}
							}
						}
					}
				}
			}
			if tier != "thorough" {
				// two changes of the service list at once (Remove next to Add) plus a request: neither change may undo the other
				for router := 0; router < 2; router++ {
					for entry := 0; entry < 2; entry++ {
						out = append(out, item{Harness: "H_C12_sched", Cfg: []int{1, router + 10, entry, 1, 2}, Label: "interleaving exploration with a third thread: Remove(/a) next to Add(/c) and a request to /b, 2 preemptions"})
					}
				}
			}
			return out
		},
		Bounds: map[string]interface{}{"threads": "2: one request (concrete URL), one mutator operation; thorough adds a third thread with a second mutator", "services": 2, "routes_per_service": 2,
			"interleavings": "H_C12_sched: every interleaving of the two threads with context switches at lock acquisitions and at most 2 (thorough 4) preemptions; thorough adds a third thread (second mutator) with 3 preemptions; 11 later requests compared"},
		Assumptions: append([]string{"event-order encoding over 8-bit timestamps: program order, RWMutex sections (writers exclusive, readers shared, a pending writer blocks new readers), adjacency of conflicting accesses = data race",
			"H_C12 (event-order queries): each thread is executed alone from the state before the mutation (its own control flow does not see the other thread's writes); it decides race-freedom and deadlock-freedom over all schedules",
			"H_C12_sched (value level): the two threads run interleaved on one state, switching only where a lock is acquired (sound for lock-ordered accesses, which H_C12 establishes for the same threads), within the preemption bound; the concurrent request's answer must be the one of the state before or after the change, and later requests must be answered as after the change made with no request in flight; natively the schedule is enforced by wrappers that replace sync.RWMutex/sync.Mutex in overlaid copies of the sources",
			"the Go memory model is not modelled: race-free programs are assumed sequentially consistent", "ServeMux internals are a stub (the real ServeMux has its own mutex)",
			"a race reported by the solver is confirmed natively by 200 runs under go test -race before it is printed"}, commonAssumptions...),
		Rule:           "mutator operation x router x entry point x target; per item one race query per pair of conflicting accesses (store vs load/store of an overlapping location in different threads) and one stuck-state query, over all schedules",
		RequiredCovers: []string{"threads-analysed", "ran", "unrelated-compared", "later-requests-compared", "saw-the-change", "saw-the-old-state"},
	}
	m["C16"] = &propDef{
		ID: "C16",
		Items: func(tier string, seed int) []item {
			var out []item
			label := "entity kind (JSON, XML), request body coding (none, gzip, deflate, gzip in two members), compressor provider, writing call (bit 0 pretty print, 2 WriteEntity, 4 WriteHeaderAndEntity), Content-Type spelling (verbatim, +parameter suffix, absent with default, unregistered with default, unregistered without default, +suffix / verbatim under a default naming the other type), earlier requests (none, 5 kinds of broken body, a good one, two mixes, a good one of the other kind read under another default request content type)"
			add := func(c ...int) { out = append(out, item{Harness: "H_C16", Cfg: c, Label: label}) }
			wmodes := []int{0, 1, 2, 3, 4, 5}
			if tier == "thorough" {
				for kind := 0; kind < 2; kind++ {
					for coding := 0; coding < 4; coding++ {
						for prov := 0; prov < 3; prov++ {
							for _, wm := range wmodes {
								for ct := 0; ct < 7; ct++ {
									for hist := 0; hist < 11; hist++ {
										add(kind, coding, prov, wm, ct, hist)
									}
								}
							}
						}
					}
				}
				return out
			}
			// quick: two full sub-products, the remaining dimensions rotating with the seed
			i := seed
			for kind := 0; kind < 2; kind++ {
				for coding := 0; coding < 4; coding++ {
					for prov := 0; prov < 3; prov++ {
						for hist := 0; hist < 11; hist++ {
							i++
							add(kind, coding, prov, wmodes[i%6], []int{0, 1, 2, 3, 5, 6}[(i/6)%6], hist) // ctmode 4 (must fail) is in the second product
						}
					}
				}
			}
			for kind := 0; kind < 2; kind++ {
				for _, wm := range wmodes {
					for ct := 0; ct < 7; ct++ {
						i++
						add(kind, i%4, (i/4)%3, wm, ct, (i/12)%11)
					}
				}
			}
			return out
		},
		Bounds: map[string]interface{}{"value": "a struct with an int64 field (all 2^64 values), a string field of <= 3 bytes in a-z, and for JSON an untyped field holding the same int64",
			"content_type_suffix_bytes": 8, "earlier_requests": "0..2 before the judged one, sharing the compressor provider",
			"configurations": "quick: 348 of the 11088 combinations (two full sub-products); thorough: all 11088"},
		Assumptions: append([]string{
			"TRUSTED, NOT CHECKED: encoding/json, encoding/xml, compress/gzip and compress/zlib themselves. Symbolically the serialisation of a value is an opaque token that the decoder of the same kind turns back into an equal value (a decoder of the other kind, a cut or destroyed token, or a body already read give an error); a compressed stream is an opaque token that the decompressor of the same coding opens (anything else gives an error). Natively (replay, differential) the real packages run. The statement's equality 'for every value in the codecs' common domain' and 'strings with any unicode' are therefore outside this check; what is decided is go-restful's part: reader selection by Content-Type spelling and default, decompressor selection by Content-Encoding, Reset of pooled readers, release bookkeeping, the number-preserving JSON decoder, errors instead of panics, independence from earlier requests",
			"json numbers decoded into interface{} without UseNumber are modelled as float64: exact for |n| <= 2^53 and even n, arbitrary for odd n beyond",
			"a Content-Type parameter suffix that itself contains '/' (could spell another registered media type) is left open"}, commonAssumptions...),
		Rule:           "entity kind x body coding x provider x writing call x Content-Type spelling x history of earlier requests; per combination the value, the parameter suffix and the lengths are symbolic",
		RequiredCovers: []string{"read-back", "large-integer", "earlier-broken-request", "earlier-good-request", "earlier-request-other-kind", "unusable-content-type", "content-type-with-parameter", "other-default-set"},
	}
	m["C15"] = &propDef{
		ID: "C15",
		Items: func(tier string, seed int) []item {
			cfgs := [][]int{{1, 0}, {2, 0}, {1, 1}, {2, 1}}
			if tier == "thorough" {
				cfgs = append(cfgs, []int{3, 0}, []int{3, 1})
			}
			var out []item
			for _, c := range cfgs {
				out = append(out, item{Harness: "H_C15", Cfg: c, Label: "number of writing calls, CompressingResponseWriter underneath (0/1)"})
			}
			nseq := 2
			if tier == "thorough" {
				nseq = 3
			}
			for entry := 0; entry < 2; entry++ {
				out = append(out, item{Harness: "H_C15_seq", Cfg: []int{nseq, entry}, Label: "requests in sequence through a container (or two), a trailing filter reading StatusCode()/ContentLength(); entry (Dispatch, ServeHTTP)"})
			}
			return out
		},
		Bounds: map[string]interface{}{"calls": "1..2 (thorough 3) chosen from Write, WriteHeader, WriteErrorString, WriteError, WriteEntity, WriteHeaderAndEntity, WriteAsJson, WriteAsXml, WriteHeaderAndXml",
			"payload_bytes": 3, "failing_call_index": "0..6", "accepted_prefix": "0..8 bytes, at most the write's length",
			"request_sequences": "H_C15_seq: 2 (thorough 3) requests through one of two containers, each handler choosing one of 4 writing calls with symbolic payload/status; StatusCode()/ContentLength() read by a trailing container filter"},
		Assumptions: append([]string{"JSON/XML marshalling is stubbed: output is an arbitrary byte string of <= 3 bytes; it fails exactly for the harness type vBadEntity (whose marshalling methods fail natively too), and nondeterministically for values of library types (ServiceError)",
			"the precondition of the property (status set at most once and before any body byte) is assumed on the call sequence",
			"with a CompressingResponseWriter underneath, the compressor is the typestate stub (accepts every write)"}, commonAssumptions...),
		Rule:           "every sequence of the listed calls (symbolic choice per step) x pretty-print flag x position at which the underlying writer starts failing x accepted prefix lengths",
		RequiredCovers: []string{"writer-failed", "compressed", "sequence-observed"},
	}
	return m
}
