package main

import (
	"fmt"
	"go/ast"
	"go/parser"
	"go/token"
	"os"
	"path/filepath"
	"strconv"
	"strings"

	vexec "verif/engine/exec"
)

// cmdSelftest: intrinsic self-test (DESIGN section 3): the string and regex summaries are evaluated by
// constant folding on a corpus - every string literal of /repo's test files, template and header shapes,
// seeded random ASCII strings - and compared with the real standard library.
func cmdSelftest() int {
	ld, err := loadRepo()
	if err != nil {
		fmt.Println("selftest: cannot load /repo:", err)
		return 2
	}
	e, err := vexec.New(ld.prog, ld.pkg, "z3-new", 60000)
	if err != nil {
		fmt.Println("selftest:", err)
		return 2
	}
	defer e.Close()
	var corpus []string
	files, _ := filepath.Glob(filepath.Join(repoDir, "*_test.go"))
	fset := token.NewFileSet()
	for _, f := range files {
		af, err := parser.ParseFile(fset, f, nil, 0)
		if err != nil {
			continue
		}
		ast.Inspect(af, func(n ast.Node) bool {
			if bl, ok := n.(*ast.BasicLit); ok && bl.Kind == token.STRING {
				if s, err := strconv.Unquote(bl.Value); err == nil && len(s) <= 24 {
					corpus = append(corpus, s)
				}
			}
			return true
		})
	}
	corpus = append(corpus, "", "/", "//", "/a/", "/a//b", "a/b", "/t/a/b/", "*/*", "a/j;q=0.5,a/x", "a/x ; q = 1", "gzip,deflate", "/t/x:go", "/t/ab7ba")
	patterns := []string{":([A-Za-z]+)$", ":go$", "[0-9]+", "[a-z]+", "[0-9]*", "^/t/([^/]+?)(/.*)?$", "^/a/([^/]+?)/b(/.*)?$", "^(/.*)?$", "^/t/(.*)(/.*)?$",
		"^(?:[0-9]+)$", "^/([0-9]+)(/.*)?$", "^/a b/([^/]+?)(/.*)?$"}
	seed := int64(envInt("VERIF_SEED", 1))
	checks, bad := e.SelfTest(corpus, patterns, seed)
	subPatterns := []string{"^/t/([^/]+?)(/.*)?$", "^/a/([^/]+?)/b(/.*)?$", "^(/.*)?$", "^/t/(.*)(/.*)?$", "^/([0-9]+)(/.*)?$", "^/a b/([^/]+?)(/.*)?$",
		"^/t(/.*)?$", "^/([^/]+?)/([^/]+?)(/.*)?$", "^/t/([0-9]*)(/.*)?$", ":([A-Za-z]+)$", "^/a/(.*)$", "^/t/x([^/]+?)y(/.*)?$"}
	c2, bad2 := e.SelfTestSubmatch(corpus, subPatterns, seed, 300)
	checks += c2
	fmt.Printf("selftest: %d submatch comparisons (FindStringSubmatch/FindStringSubmatchIndex, boundaries from the solver)\n", c2)
	bad = append(bad, bad2...)
	for _, b := range bad {
		fmt.Println("SELFTEST-MISMATCH:", b)
	}
	fmt.Printf("selftest: %d comparisons of string/regex summaries against the standard library on %d corpus strings, %d mismatches\n", checks, len(corpus), len(bad))
	if len(bad) > 0 {
		return 2
	}
	_ = strings.TrimSpace
	_ = os.Getenv
	return 0
}
