package main

func cmdSelftest() int { return 0 }
