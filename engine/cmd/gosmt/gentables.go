package main

import "strings"

// Mirror of /verif/harness/zz_verif_gentables.go: which generated tables exist
// and which of them use Curly-only forms / only the common fragment.

type genSeg struct {
	text  string
	curly bool
}

var genSegs = []genSeg{
	{"a", false}, {"b", false}, {"{v}", false}, {"{v:[0-9]+}", false}, {"{v:[0-9]*}", false},
	{"ab{v}ba", true}, {"{v}.x", true}, {"p{v}", true},
	{"a:go", true}, {"{v}:go", true}, {"{v:*}", false},
}

type genTpl struct {
	curly, plain, tail bool
}

func genTemplates() []genTpl {
	var out []genTpl
	isPlain := func(s string) bool { return s == "a" || s == "b" || s == "{v}" }
	for _, s := range genSegs {
		out = append(out, genTpl{curly: s.curly, plain: isPlain(s.text), tail: s.text == "{v:*}"})
	}
	for range []int{0, 2} {
		for _, s := range genSegs {
			out = append(out, genTpl{curly: s.curly, plain: isPlain(s.text), tail: s.text == "{v:*}"})
		}
	}
	return out
}

type genInfo struct {
	idx                int // configuration number (>= 1000)
	curly, plain, tail bool
	sameMethod         bool
	single             bool
}

func genTables() []genInfo {
	t := genTemplates()
	n := len(t)
	var out []genInfo
	g := 0
	for i := 0; i < n; i++ {
		for j := i; j < n; j++ {
			for variant := 0; variant < 2; variant++ {
				out = append(out, genInfo{idx: 1000 + g, curly: t[i].curly || t[j].curly, plain: t[i].plain && t[j].plain,
					tail: t[i].tail || t[j].tail, sameMethod: variant == 0, single: i == j && variant == 0})
				g++
			}
		}
	}
	return out
}

// genSample picks k generated tables by seed (quick tier).
func genSample(seed, k int, keep func(genInfo) bool) []genInfo {
	all := genTables()
	var pool []genInfo
	for _, g := range all {
		if keep(g) {
			pool = append(pool, g)
		}
	}
	if k >= len(pool) {
		return pool
	}
	var out []genInfo
	x := uint64(seed)*2654435761 + 12345
	seen := map[int]bool{}
	for len(out) < k {
		x = x*6364136223846793005 + 1442695040888963407
		i := int((x >> 33) % uint64(len(pool)))
		if !seen[i] {
			seen[i] = true
			out = append(out, pool[i])
		}
	}
	return out
}

// ---------------------------------------------------------------- generated root-path tables (>= 3000)

var genRoots = []string{"/a", "/a/b", "/{v}", "/{v:[0-9]+}", "/{v}.x", "/p{v}", "/a/{v}", "/{v}/b", "/a/{v}.x", "/{v:[0-9]*}", "/", "/a/{v:[0-9]+}", "/{v}/{u}"}

type genRootInfo struct {
	idx       int  // configuration number
	curly     bool // a root uses a Curly-only form (literal prefix/suffix around a variable)
	literal   bool // literal roots only
	sameShape bool // two different roots with the same sequence of literal/variable positions
	nullable  bool // a root has a regex variable that admits the empty string (unspecified zone of RouterJSR311)
	single    bool
}

func rootShape(r string) string {
	out := ""
	seg := ""
	flush := func() {
		if seg == "" {
			return
		}
		if strings.Contains(seg, "{") {
			out += "v"
		} else {
			out += "l"
		}
		seg = ""
	}
	for i := 0; i < len(r); i++ {
		if r[i] == '/' {
			flush()
			continue
		}
		seg += string(r[i])
	}
	flush()
	return out
}

func genRootTables() []genRootInfo {
	var out []genRootInfo
	n := len(genRoots)
	g := 0
	isCurly := func(r string) bool { return strings.Contains(r, "}.") || strings.Contains(r, "p{") }
	for i := 0; i < n; i++ {
		for j := i; j < n; j++ {
			out = append(out, genRootInfo{idx: 3000 + g, curly: isCurly(genRoots[i]) || isCurly(genRoots[j]),
				literal:   !strings.Contains(genRoots[i], "{") && !strings.Contains(genRoots[j], "{"),
				sameShape: i != j && rootShape(genRoots[i]) == rootShape(genRoots[j]), single: i == j,
				nullable: strings.Contains(genRoots[i], "]*}") || strings.Contains(genRoots[j], "]*}")})
			g++
		}
	}
	return out
}

// genRootSample: all root tables in thorough, k by seed in quick.
func genRootSample(tier string, seed, k int, keep func(genRootInfo) bool) []genRootInfo {
	var pool []genRootInfo
	for _, g := range genRootTables() {
		if keep(g) {
			pool = append(pool, g)
		}
	}
	if tier == "thorough" || k >= len(pool) {
		return pool
	}
	var out []genRootInfo
	x := uint64(seed)*2654435761 + 777
	seen := map[int]bool{}
	for len(out) < k {
		x = x*6364136223846793005 + 1442695040888963407
		i := int((x >> 33) % uint64(len(pool)))
		if !seen[i] {
			seen[i] = true
			out = append(out, pool[i])
		}
	}
	return out
}
