package main

import (
	"fmt"
	"os"
	"path/filepath"
	"strings"

	"golang.org/x/tools/go/packages"
	"golang.org/x/tools/go/ssa"
	"golang.org/x/tools/go/ssa/ssautil"
)

// repoDir is the tree under check: /repo. VERIF_REPO may point at a scratch worktree of /repo instead; that is only
// used while developing checks against seeded changes (registered commands never set it).
var repoDir = func() string {
	if d := os.Getenv("VERIF_REPO"); d != "" {
		return d
	}
	return "/repo"
}()

func harnessDir() string {
	if d := os.Getenv("VERIF_HARNESS_DIR"); d != "" {
		return d
	}
	exe, err := os.Executable()
	if err == nil {
		d := filepath.Join(filepath.Dir(filepath.Dir(exe)), "harness")
		if _, err := os.Stat(d); err == nil {
			return d
		}
	}
	return "/verif/harness"
}

// harnessOverlay maps virtual files /repo/zz_verif_*.go to harness sources.
func harnessOverlay(includeTests bool) (map[string]string, error) {
	dir := harnessDir()
	ents, err := os.ReadDir(dir)
	if err != nil {
		return nil, err
	}
	m := map[string]string{}
	for _, en := range ents {
		n := en.Name()
		if !strings.HasSuffix(n, ".go") {
			continue
		}
		if strings.HasSuffix(n, "_test.go") && !includeTests {
			continue
		}
		m[filepath.Join(repoDir, n)] = filepath.Join(dir, n)
	}
	return m, nil
}

func goEnv() []string {
	env := os.Environ()
	env = append(env, "GOFLAGS=-mod=mod", "GOPROXY=off", "GOSUMDB=off", "GOTOOLCHAIN=local")
	return env
}

type loaded struct {
	prog *ssa.Program
	pkg  *ssa.Package
}

func loadRepo() (*loaded, error) {
	ov, err := harnessOverlay(false)
	if err != nil {
		return nil, err
	}
	overlay := map[string][]byte{}
	for virt, real := range ov {
		b, err := os.ReadFile(real)
		if err != nil {
			return nil, err
		}
		overlay[virt] = b
	}
	cfg := &packages.Config{
		Mode:    packages.LoadAllSyntax,
		Dir:     repoDir,
		Overlay: overlay,
		Env:     goEnv(),
	}
	pkgs, err := packages.Load(cfg, ".")
	if err != nil {
		return nil, err
	}
	nerr := 0
	packages.Visit(pkgs, nil, func(p *packages.Package) {
		for _, e := range p.Errors {
			fmt.Fprintln(os.Stderr, "load error:", e)
			nerr++
		}
	})
	if nerr > 0 {
		return nil, fmt.Errorf("%d errors loading /repo with the harness overlay", nerr)
	}
	prog, spkgs := ssautil.AllPackages(pkgs, ssa.InstantiateGenerics)
	prog.Build()
	if len(spkgs) == 0 || spkgs[0] == nil {
		return nil, fmt.Errorf("no SSA package")
	}
	return &loaded{prog: prog, pkg: spkgs[0]}, nil
}
