// gosmt: solver-based checking of go-restful's real code. See /verif/DESIGN.md.
package main

import (
	"encoding/json"
	"flag"
	"fmt"
	"os"
	"runtime/pprof"
	"strconv"
	"strings"
	"time"

	"verif/engine/exec"
)

func usage() {
	fmt.Fprintln(os.Stderr, `usage:
  gosmt run -harness H_name -cfg 0,1 [-debug]     run one harness (debugging)
  gosmt check <Cxx> <quick|thorough>              run a registered check
  gosmt replay <file>                             replay a violation natively
  gosmt selftest                                  intrinsic self-test`)
	os.Exit(2)
}

func main() {
	if len(os.Args) < 2 {
		usage()
	}
	switch os.Args[1] {
	case "run":
		cmdRun(os.Args[2:])
	case "check":
		if len(os.Args) < 4 {
			usage()
		}
		os.Exit(cmdCheck(os.Args[2], os.Args[3]))
	case "replay":
		if len(os.Args) < 3 {
			usage()
		}
		os.Exit(cmdReplay(os.Args[2]))
	case "selftest":
		os.Exit(cmdSelftest())
	default:
		usage()
	}
}

func parseCfg(s string) []int {
	var out []int
	if s == "" {
		return out
	}
	for _, p := range strings.Split(s, ",") {
		n, err := strconv.Atoi(strings.TrimSpace(p))
		if err != nil {
			fmt.Fprintln(os.Stderr, "bad cfg:", p)
			os.Exit(2)
		}
		out = append(out, n)
	}
	return out
}

func cmdRun(args []string) {
	fs := flag.NewFlagSet("run", flag.ExitOnError)
	harness := fs.String("harness", "", "harness function name")
	cfg := fs.String("cfg", "", "comma separated int arguments")
	debug := fs.Bool("debug", false, "trace instructions")
	solver := fs.String("solver", "z3-new", "solver")
	full := fs.Bool("full", false, "print full result JSON")
	inputs := fs.String("inputs", "", "JSON object of concrete nondet inputs (concrete mode)")
	prof := fs.String("cpuprofile", "", "write cpu profile")
	fs.Parse(args)
	if *prof != "" {
		f, _ := os.Create(*prof)
		pprof.StartCPUProfile(f)
		defer pprof.StopCPUProfile()
	}
	t0 := time.Now()
	ld, err := loadRepo()
	if err != nil {
		fmt.Fprintln(os.Stderr, "load:", err)
		os.Exit(2)
	}
	fmt.Fprintf(os.Stderr, "loaded in %v\n", time.Since(t0))
	e, err := exec.New(ld.prog, ld.pkg, *solver, 60000)
	if err != nil {
		fmt.Fprintln(os.Stderr, err)
		os.Exit(2)
	}
	defer e.Close()
	if err := e.InitState(); err != nil {
		fmt.Fprintln(os.Stderr, "init:", err)
	}
	e.Debug = *debug
	e.Progress = envInt("VERIF_PROGRESS", 0)
	e.S.SlowMs = envInt("VERIF_SLOW", 0)
	if os.Getenv("VERIF_FORKTRACE") != "" {
		e.ForkTrace = map[string]int{}
		go func() {
			time.Sleep(time.Duration(envInt("VERIF_FORKTRACE", 20)) * time.Second)
			for k, v := range e.ForkTrace {
				fmt.Fprintf(os.Stderr, "fork %6d %s\n", v, k)
			}
			os.Exit(3)
		}()
	}
	if lf := os.Getenv("VERIF_SMTLOG"); lf != "" {
		f, _ := os.Create(lf)
		e.S.Log = f
	}
	e.SchedDebug = os.Getenv("VERIF_SCHED_DEBUG") != ""
	if *inputs != "" {
		if err := json.Unmarshal([]byte(*inputs), &e.Fixed); err != nil {
			fmt.Fprintln(os.Stderr, "bad -inputs:", err)
			os.Exit(2)
		}
	}
	fn := ld.pkg.Func(*harness)
	if fn == nil {
		fmt.Fprintln(os.Stderr, "no such harness:", *harness)
		os.Exit(2)
	}
	var vals []exec.Value
	for _, n := range parseCfg(*cfg) {
		vals = append(vals, e.C.Int64(int64(n)))
	}
	t1 := time.Now()
	res := e.Run(fn, vals)
	el := time.Since(t1)
	fmt.Printf("paths=%d ends=%v obligations=%d discharged=%d trivial=%d violations=%d inconclusive=%d\n",
		res.Paths, res.Ends, res.Obligations, res.Discharged, res.Trivial, len(res.Violations), len(res.Inconclusive))
	fmt.Printf("covers=%v\n", res.Covers)
	fmt.Printf("queries=%d sat=%d unsat=%d unknown=%d solver=%v wall=%v terms=%d\n", e.S.Stats.Queries, e.S.Stats.Sat, e.S.Stats.Unsat, e.S.Stats.Unknown, e.S.Stats.SolveTime, el, len(e.C.Terms))
	seen := map[string]bool{}
	for _, inc := range res.Inconclusive {
		if !seen[inc] {
			seen[inc] = true
			fmt.Println("INCONCLUSIVE:", inc)
		}
	}
	for _, er := range e.S.Stats.Errors {
		fmt.Println("SOLVER-ERROR:", er)
	}
	nshow := 0
	for _, v := range res.Violations {
		k := v.Msg + "|" + v.Known
		if seen[k] && !*full {
			continue
		}
		seen[k] = true
		b, _ := json.Marshal(v.Inputs)
		fmt.Printf("VIOLATION-CANDIDATE known=%q msg=%q tag=%s inputs=%s\n", v.Known, v.Msg, v.PathTag, b)
		nshow++
	}
	for k, n := range res.Notes {
		fmt.Printf("note: %s ×%d\n", k, n)
	}
	if *full {
		b, _ := json.MarshalIndent(res.Samples, "", " ")
		fmt.Println(string(b))
	} else {
		for i, s := range res.Samples {
			if i >= 8 {
				break
			}
			b, _ := json.Marshal(s)
			fmt.Println("sample:", string(b))
		}
	}
}
