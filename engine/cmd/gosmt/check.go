package main

import (
	"crypto/sha1"
	"encoding/json"
	"fmt"
	"os"
	"os/exec"
	"path/filepath"
	"reflect"
	"runtime"
	"sort"
	"strconv"
	"strings"
	"sync"
	"time"

	"go/ast"
	"go/parser"
	"go/printer"
	"go/token"
	vexec "verif/engine/exec"
)

type item struct {
	Harness string
	Cfg     []int
	Label   string
}

func (it item) String() string {
	return fmt.Sprintf("%s%v", it.Harness, it.Cfg)
}

type propDef struct {
	ID             string
	Items          func(tier string, seed int) []item
	Bounds         map[string]interface{}
	Assumptions    []string
	Rule           string
	Exhaustive     bool
	RequiredCovers []string
	// PayloadCap overrides the capacity of opaque codec outputs.
	PayloadCap int
}

type itemResult struct {
	It      item
	Res     *vexec.RunResult
	Queries int
	Sat     int
	Unsat   int
	Unknown int
	Solve   time.Duration
	Wall    time.Duration
	Errors  []string
	InitErr string
}

func verifRoot() string {
	if d := os.Getenv("VERIF_ROOT"); d != "" {
		return d
	}
	return "/verif"
}

func envInt(name string, def int) int {
	if v := os.Getenv(name); v != "" {
		if n, err := strconv.Atoi(v); err == nil {
			return n
		}
	}
	return def
}

// itemBudget: wall-clock seconds one (harness, configuration) item may take before it is abandoned as
// INCONCLUSIVE (set per tier by cmdCheck).
var itemBudget = 240

func runItems(ld *loaded, items []item, seed int, payloadCap int) []itemResult {
	nw := runtime.NumCPU()
	if nw > 16 {
		nw = 16
	}
	if n := envInt("VERIF_WORKERS", 0); n > 0 {
		nw = n
	}
	if nw > len(items) {
		nw = len(items)
	}
	if nw < 1 {
		nw = 1
	}
	results := make([]itemResult, len(items))
	ch := make(chan int, len(items))
	for i := range items {
		ch <- i
	}
	close(ch)
	var wg sync.WaitGroup
	if payloadCap > 0 {
		vexec.PayloadCap = payloadCap
	}
	for w := 0; w < nw; w++ {
		wg.Add(1)
		go func() {
			defer wg.Done()
			var e *vexec.Exec
			initErr := ""
			served := 0
			// the term table of an executor only grows: a worker that serves thousands of configurations starts over
			// with a new executor (and solver process) every 40 of them
			renew := func() error {
				if e != nil {
					e.Close()
				}
				var err error
				e, err = vexec.New(ld.prog, ld.pkg, "z3-new", 60000)
				if err != nil {
					return err
				}
				e.Seed = seed
				e.Budget = time.Duration(envInt("VERIF_ITEM_BUDGET_S", itemBudget)) * time.Second
				initErr = ""
				if err := e.InitState(); err != nil {
					initErr = err.Error()
				}
				served = 0
				return nil
			}
			if err := renew(); err != nil {
				for i := range ch {
					results[i] = itemResult{It: items[i], InitErr: err.Error()}
				}
				return
			}
			defer func() { e.Close() }()
			for i := range ch {
				if served >= 40 {
					if err := renew(); err != nil {
						results[i] = itemResult{It: items[i], InitErr: err.Error()}
						continue
					}
				}
				served++
				it := items[i]
				fn := ld.pkg.Func(it.Harness)
				if fn == nil {
					results[i] = itemResult{It: it, InitErr: "no such harness " + it.Harness}
					continue
				}
				var vals []vexec.Value
				for _, n := range it.Cfg {
					vals = append(vals, e.C.Int64(int64(n)))
				}
				before := e.S.Stats
				t0 := time.Now()
				res := e.Run(fn, vals)
				after := e.S.Stats
				results[i] = itemResult{It: it, Res: res, Queries: after.Queries - before.Queries, Sat: after.Sat - before.Sat,
					Unsat: after.Unsat - before.Unsat, Unknown: after.Unknown - before.Unknown, Solve: after.SolveTime - before.SolveTime,
					Wall: time.Since(t0), Errors: after.Errors[len(before.Errors):], InitErr: initErr}
				if len(items) > 400 && res != nil {
					// many configurations: keep the evidence small (two witnesses and one script of each)
					if len(res.Samples) > 2 {
						res.Samples = res.Samples[:2]
					}
					if len(res.Scripts) > 1 {
						res.Scripts = res.Scripts[:1]
					}
				}
			}
		}()
	}
	wg.Wait()
	return results
}

// ---------------------------------------------------------------- native replay

type nativeCase struct {
	Harness string
	Cfg     []int
	Inputs  map[string]interface{}
}

type nativeResult struct {
	Failures []string
	Known    []string
	Covers   []string
	Obs      map[string]interface{}
	End      string
	Panic    string
}

func workDir() (string, error) {
	d := filepath.Join(verifRoot(), ".work", fmt.Sprintf("%d", os.Getpid()))
	if err := os.MkdirAll(d, 0755); err != nil {
		return "", err
	}
	return d, nil
}

// nativeRun runs the cases natively. A case that blocks forever is reported with End "hang" by the replay
// driver, which then stops; the cases after it are run in a fresh process.
func nativeRun(cases []nativeCase, race bool) ([]nativeResult, string, error) {
	var all []nativeResult
	var outs string
	for len(all) < len(cases) {
		res, out, err := nativeRunOnce(cases[len(all):], race)
		outs += out
		if err != nil {
			return nil, outs, err
		}
		n := 0
		for _, r := range res {
			if r.End == "notrun" {
				break
			}
			n++
		}
		if n == 0 {
			return nil, outs, fmt.Errorf("native replay made no progress")
		}
		all = append(all, res[:n]...)
	}
	return all, outs, nil
}

func nativeRunOnce(cases []nativeCase, race bool) ([]nativeResult, string, error) {
	if len(cases) == 0 {
		return nil, "", nil
	}
	wd, err := workDir()
	if err != nil {
		return nil, "", err
	}
	defer os.RemoveAll(wd)
	ov, err := harnessOverlay(true)
	if err != nil {
		return nil, "", err
	}
	for _, c := range cases {
		if _, ok := c.Inputs["__schedule"]; ok {
			// a schedule is to be enforced: the package's locks are replaced, in overlaid copies of the current
			// sources, by wrappers that take their turn (harness/zz_verif_prims.go)
			if err := instrumentLocks(ov, wd); err != nil {
				return nil, "", err
			}
			break
		}
	}
	ovb, _ := json.Marshal(map[string]interface{}{"Replace": ov})
	ovf := filepath.Join(wd, "overlay.json")
	if err := os.WriteFile(ovf, ovb, 0644); err != nil {
		return nil, "", err
	}
	inb, _ := json.Marshal(cases)
	inf := filepath.Join(wd, "in.json")
	outf := filepath.Join(wd, "out.json")
	if err := os.WriteFile(inf, inb, 0644); err != nil {
		return nil, "", err
	}
	args := []string{"test", "-vet=off", "-count=1", "-timeout", "20m", "-run", "^TestVerifReplay$", "-overlay", ovf}
	if race {
		args = append(args, "-race")
	}
	if os.Getenv("VERIF_SCHED_DEBUG") != "" {
		args = append(args, "-v")
	}
	args = append(args, ".")
	cmd := exec.Command("go", args...)
	cmd.Dir = repoDir
	cmd.Env = append(goEnv(), "VERIF_REPLAY_IN="+inf, "VERIF_REPLAY_OUT="+outf)
	out, err := cmd.CombinedOutput()
	if err != nil {
		return nil, string(out), fmt.Errorf("native replay failed: %v", err)
	}
	ob, err := os.ReadFile(outf)
	if err != nil {
		return nil, string(out), err
	}
	var res []nativeResult
	if err := json.Unmarshal(ob, &res); err != nil {
		return nil, string(out), err
	}
	return res, string(out), nil
}

// instrumentLocks adds to the overlay copies of /repo's non-test sources in which sync.RWMutex and sync.Mutex are
// replaced by the harness wrappers verifRWMutex and verifMutex.
func instrumentLocks(ov map[string]string, wd string) error {
	files, err := filepath.Glob(filepath.Join(repoDir, "*.go"))
	if err != nil {
		return err
	}
	for _, f := range files {
		if strings.HasSuffix(f, "_test.go") {
			continue
		}
		if _, isHarness := ov[f]; isHarness {
			continue
		}
		b, err := os.ReadFile(f)
		if err != nil {
			return err
		}
		src := string(b)
		hasLocks := strings.Contains(src, "sync.RWMutex") || strings.Contains(src, "sync.Mutex")
		withYields, changed := instrumentChanOps(f, b)
		if !hasLocks && !changed {
			continue
		}
		if changed {
			src = withYields
		}
		if hasLocks {
			src = strings.ReplaceAll(src, "sync.RWMutex", "verifRWMutex")
			src = strings.ReplaceAll(src, "sync.Mutex", "verifMutex")
			src += "\n\nvar _ = sync.NewCond // keeps the import used\n"
		}
		out := filepath.Join(wd, "instr_"+filepath.Base(f))
		if err := os.WriteFile(out, []byte(src), 0644); err != nil {
			return err
		}
		ov[f] = out
	}
	return nil
}

// instrumentChanOps returns src with a call of verifYield() behind every channel operation: as first statement of each
// communication clause of a select, and behind send and receive statements elsewhere. These are the places where the
// interleaving exploration may switch threads after a channel operation (engine/exec/sched.go, schedChanOp), so that a
// recorded schedule can be followed natively.
func instrumentChanOps(filename string, src []byte) (string, bool) {
	fset := token.NewFileSet()
	f, err := parser.ParseFile(fset, filename, src, parser.ParseComments)
	if err != nil {
		return "", false
	}
	changed := false
	yield := func() ast.Stmt {
		changed = true
		return &ast.ExprStmt{X: &ast.CallExpr{Fun: ast.NewIdent("verifYield")}}
	}
	isRecv := func(e ast.Expr) bool {
		u, ok := e.(*ast.UnaryExpr)
		return ok && u.Op == token.ARROW
	}
	fix := func(list []ast.Stmt) []ast.Stmt {
		var out []ast.Stmt
		for _, st := range list {
			out = append(out, st)
			switch x := st.(type) {
			case *ast.SendStmt:
				out = append(out, yield())
			case *ast.ExprStmt:
				if isRecv(x.X) {
					out = append(out, yield())
				}
			case *ast.AssignStmt:
				for _, r := range x.Rhs {
					if isRecv(r) {
						out = append(out, yield())
						break
					}
				}
			}
		}
		return out
	}
	ast.Inspect(f, func(n ast.Node) bool {
		switch x := n.(type) {
		case *ast.BlockStmt:
			x.List = fix(x.List)
		case *ast.CaseClause:
			x.Body = fix(x.Body)
		case *ast.CommClause:
			x.Body = append([]ast.Stmt{yield()}, fix(x.Body)...)
		}
		return true
	})
	if !changed {
		return "", false
	}
	var sb strings.Builder
	if err := printer.Fprint(&sb, fset, f); err != nil {
		return "", false
	}
	return sb.String(), true
}

// normalise JSON-ish values for comparison (numbers to float64).
func norm(v interface{}) interface{} {
	b, _ := json.Marshal(v)
	var out interface{}
	json.Unmarshal(b, &out)
	return out
}

// ---------------------------------------------------------------- known findings

type knownFinding struct {
	Property string `json:"property"`
	ID       string `json:"id"`
	What     string `json:"what"`
}

type knownFile struct {
	Findings []knownFinding `json:"findings"`
	Fixed    []string       `json:"fixed"`
}

func loadKnown() knownFile {
	var k knownFile
	b, err := os.ReadFile(filepath.Join(verifRoot(), "known_findings.json"))
	if err == nil {
		json.Unmarshal(b, &k)
	}
	return k
}

// ---------------------------------------------------------------- check

type candidate struct {
	It     item
	V      vexec.Violation
	Native *nativeResult
	idx    int
}

func cmdCheck(id, tier string) int {
	t0 := time.Now()
	if tier != "quick" && tier != "thorough" {
		fmt.Fprintln(os.Stderr, "tier must be quick or thorough")
		return 2
	}
	def, ok := properties()[id]
	if !ok {
		fmt.Fprintln(os.Stderr, "unknown property", id)
		return 2
	}
	seed := envInt("VERIF_SEED", 1)
	if tier == "thorough" {
		itemBudget = 1800
	}
	ld, err := loadRepo()
	if err != nil {
		fmt.Printf("INCONCLUSIVE property=%s cannot load /repo with the harness overlay: %v\n", id, err)
		return 2
	}
	items := def.Items(tier, seed)
	results := runItems(ld, items, seed, def.PayloadCap)

	// ---- aggregate
	var inconclusive []string
	addInc := func(s string) {
		for _, x := range inconclusive {
			if x == s {
				return
			}
		}
		inconclusive = append(inconclusive, s)
	}
	paths, queries, obligations, discharged, trivial := 0, 0, 0, 0, 0
	sat, unsat, unknown := 0, 0, 0
	var solve time.Duration
	covers := map[string]int{}
	ends := map[string]int{}
	funcs := map[string]bool{}
	intr := map[string]bool{}
	ssaLib := map[string]bool{}
	notes := map[string]int{}
	var cands []candidate
	var scripts []vexec.ObligationScript
	type sampleRef struct {
		It item
		S  vexec.PathSample
	}
	var samples []sampleRef
	for _, r := range results {
		if r.InitErr != "" {
			addInc("init: " + r.InitErr)
		}
		if r.Res == nil {
			continue
		}
		paths += r.Res.Paths
		queries += r.Queries
		sat += r.Sat
		unsat += r.Unsat
		unknown += r.Unknown
		solve += r.Solve
		obligations += r.Res.Obligations
		discharged += r.Res.Discharged
		trivial += r.Res.Trivial
		for k, v := range r.Res.Covers {
			covers[k] += v
		}
		for k, v := range r.Res.Ends {
			ends[k] += v
		}
		for k := range r.Res.Funcs {
			funcs[k] = true
		}
		for k := range r.Res.Intrinsics {
			intr[k] = true
		}
		for k, v := range r.Res.Notes {
			if strings.HasPrefix(k, "ssa:") {
				ssaLib[strings.TrimPrefix(k, "ssa:")] = true
			} else {
				notes[k] += v
			}
		}
		for _, inc := range r.Res.Inconclusive {
			addInc(fmt.Sprintf("%s: %s", r.It, inc))
		}
		for _, e := range r.Errors {
			addInc(fmt.Sprintf("%s: solver error: %s", r.It, e))
		}
		if r.Unknown > 0 {
			addInc(fmt.Sprintf("%s: %d solver answers unknown/timeout", r.It, r.Unknown))
		}
		for _, v := range r.Res.Violations {
			cands = append(cands, candidate{It: r.It, V: v, idx: len(cands)})
		}
		for _, s := range r.Res.Samples {
			if s.End == "deadlock" || s.End == "blocked" {
				continue // nothing to compare, and the native run would not return
			}
			samples = append(samples, sampleRef{It: r.It, S: s})
		}
		scripts = append(scripts, r.Res.Scripts...)
	}
	// ---- vacuity
	for _, c := range def.RequiredCovers {
		if covers[c] == 0 {
			addInc("vacuity: reachability witness never reached: " + c)
		}
	}
	// ---- choose candidates to replay: up to 3 per (msg, known)
	perKey := map[string]int{}
	var chosen []int
	for i, c := range cands {
		k := c.V.Msg + "|" + c.V.Known
		if perKey[k] < 3 {
			perKey[k]++
			chosen = append(chosen, i)
		}
	}
	// ---- sample paths for the engine-vs-native differential (bounded)
	maxSamples := 120
	if tier == "thorough" {
		maxSamples = 400
	}
	if len(samples) > maxSamples {
		// deterministic thinning by seed
		step := len(samples)/maxSamples + 1
		var th []sampleRef
		for i := seed % step; i < len(samples); i += step {
			th = append(th, samples[i])
		}
		samples = th
	}
	var ncases []nativeCase
	var raceCands []int
	for _, i := range chosen {
		if cands[i].V.PathTag == "race" {
			raceCands = append(raceCands, i)
		}
		ncases = append(ncases, nativeCase{Harness: cands[i].It.Harness, Cfg: cands[i].It.Cfg, Inputs: cands[i].V.Inputs})
	}
	// schedule-dependent findings: repeat the native run (a blocked release needed 289 attempts in the design probes)
	type rep struct{ cand, from, n int }
	var reps []rep
	for _, i := range chosen {
		if cands[i].V.PathTag == "stuck" {
			reps = append(reps, rep{cand: i, n: 400})
		}
	}
	for _, s := range samples {
		ncases = append(ncases, nativeCase{Harness: s.It.Harness, Cfg: s.It.Cfg, Inputs: s.S.Inputs})
	}
	for k := range reps {
		reps[k].from = len(ncases)
		for j := 0; j < reps[k].n; j++ {
			c := cands[reps[k].cand]
			ncases = append(ncases, nativeCase{Harness: c.It.Harness, Cfg: c.It.Cfg, Inputs: c.V.Inputs})
		}
	}
	nres, nout, err := nativeRun(ncases, false)
	if err != nil {
		addInc("native replay: " + err.Error() + "\n" + tail(nout, 30))
	}
	validated := 0
	var mismatches []string
	if err == nil {
		for k, i := range chosen {
			r := nres[k]
			cands[i].Native = &r
		}
		for _, rp := range reps {
			for j := 0; j < rp.n; j++ {
				r := nres[rp.from+j]
				if len(r.Failures) > 0 {
					cands[rp.cand].Native = &r
					break
				}
			}
		}
		// data races: replay under the race detector, one candidate at a time
		for _, i := range raceCands {
			var cs []nativeCase
			for j := 0; j < 200; j++ {
				cs = append(cs, nativeCase{Harness: cands[i].It.Harness, Cfg: cands[i].It.Cfg, Inputs: cands[i].V.Inputs})
			}
			_, rout, rerr := nativeRun(cs, true)
			if rerr != nil && strings.Contains(rout, "DATA RACE") {
				cands[i].Native = &nativeResult{Failures: []string{cands[i].V.Msg}, End: "race", Panic: raceExcerpt(rout)}
			}
		}
		for k, s := range samples {
			r := nres[len(chosen)+k]
			okEnd := r.End == s.S.End || (s.S.End == "return" && r.End == "return")
			switch s.S.End {
			case vexec.EndUnspecified:
				okEnd = r.End == "unspecified"
			case vexec.EndUnmodelled, vexec.EndUnsupported, vexec.EndLimit, "deadlock", "blocked":
				okEnd = true // nothing to compare
			case vexec.EndPanic:
				okEnd = r.End == "panic"
			case vexec.EndExit:
				okEnd = true
			}
			same := okEnd
			stubFault := false
			for k, v := range s.S.Inputs {
				if b, ok := v.(bool); ok && b && strings.HasSuffix(k, "!err") {
					stubFault = true // a fault injected by a stub (marshal error): not reproducible natively
				}
			}
			if stubFault {
				continue
			}
			if s.S.End == vexec.EndReturn && okEnd {
				same = reflect.DeepEqual(norm(s.S.Obs), norm(r.Obs))
			}
			if same && s.S.End == vexec.EndReturn && !s.S.MayFail && len(r.Failures) > 0 {
				// every obligation of this path was discharged, yet the native run of the witness trips over one:
				// the engine (or a stub) and the real code disagree
				same = false
			}
			if same {
				validated++
			} else {
				b1, _ := json.Marshal(s.S)
				b2, _ := json.Marshal(r)
				mismatches = append(mismatches, fmt.Sprintf("%s engine=%s native=%s", s.It, b1, b2))
			}
		}
	}
	for i, m := range mismatches {
		if i < 5 {
			addInc("engine-vs-native mismatch: " + m)
		}
	}
	// ---- cross-solver re-check of sampled obligations
	crossChecked, crossDisagree := crossCheck(scripts, tier, seed)
	for _, d := range crossDisagree {
		addInc("cross-solver disagreement: " + d)
	}
	// ---- classify candidates
	known := loadKnown()
	isListed := func(kid string) (knownFinding, bool) {
		for _, k := range known.Findings {
			if k.Property == id && k.ID == kid {
				return k, true
			}
		}
		return knownFinding{}, false
	}
	exit := 0
	violations := 0
	knownSeen := map[string]bool{}
	reported := map[string]bool{}
	os.MkdirAll(filepath.Join(verifRoot(), "replays"), 0755)
	var violationSamples []interface{}
	for _, i := range chosen {
		c := cands[i]
		if c.Native == nil {
			continue
		}
		confirmed := false
		for _, f := range c.Native.Failures {
			if f == c.V.Msg {
				confirmed = true
			}
		}
		if !confirmed {
			// the native run may trip over a different assertion of the same property on the same
			// input (e.g. real gzip fails earlier than the token model): still a confirmed violation
			if i := strings.Index(c.V.Msg, ":"); i > 0 {
				for _, f := range c.Native.Failures {
					if strings.HasPrefix(f, c.V.Msg[:i+1]) {
						confirmed = true
						c.V.Msg = c.V.Msg + " [natively: " + f + "]"
						cands[i0(chosen, c)] = c
						break
					}
				}
			}
		}
		if strings.HasPrefix(c.V.Msg, "uncaught panic") && c.Native.End == "panic" {
			confirmed = true
		}
		if strings.HasPrefix(c.V.Msg, "deadlock:") && c.Native.End == "hang" {
			// a goroutine that takes a lock it already holds: the native run never returned
			confirmed = true
		}
		if strings.HasPrefix(c.V.Msg, "frame[") {
			// engine-level observation; the native harness carries its own check
			for _, f := range c.Native.Failures {
				if strings.HasPrefix(f, "native:") {
					confirmed = true
				}
			}
		}
		key := c.V.Msg + "|" + c.V.Known
		if !confirmed {
			if !reported["u"+key] {
				reported["u"+key] = true
				b, _ := json.Marshal(c.V.Inputs)
				nb, _ := json.Marshal(c.Native)
				if strings.HasPrefix(c.V.Msg, "frame[") {
					addInc(fmt.Sprintf("frame monitor: a store to state that outlives the request was found symbolically but the native fingerprint did not change: %s %s inputs=%s", c.It, c.V.Msg, b))
				} else {
					addInc(fmt.Sprintf("counterexample did not reproduce natively (engine or stub defect): %s msg=%q inputs=%s native=%s", c.It, c.V.Msg, b, nb))
				}
			}
			continue
		}
		if kf, listed := isListed(c.V.Known); c.V.Known != "" && listed {
			if !knownSeen[kf.ID] {
				knownSeen[kf.ID] = true
				fmt.Printf("KNOWN-FINDING: property=%s %s [%s] e.g. %s inputs=%s\n", id, kf.What, kf.ID, c.It, mustJSON(c.V.Inputs))
			}
			continue
		}
		if reported[key] {
			continue
		}
		reported[key] = true
		violations++
		rp := writeReplay(id, c)
		fmt.Printf("VIOLATION property=%s replay=%s\n", id, rp)
		fmt.Printf("  %s: %s inputs=%s\n", c.It, c.V.Msg, mustJSON(c.V.Inputs))
		violationSamples = append(violationSamples, map[string]interface{}{"item": c.It.String(), "msg": c.V.Msg, "inputs": c.V.Inputs})
		exit = 1
	}
	if exit == 0 && len(inconclusive) > 0 {
		exit = 2
	}
	for _, inc := range inconclusive {
		fmt.Printf("INCONCLUSIVE property=%s %s\n", id, inc)
	}
	// ---- evidence
	var sampleOut []interface{}
	for i, s := range samples {
		if i >= 6 {
			break
		}
		sampleOut = append(sampleOut, map[string]interface{}{"kind": "path", "item": s.It.String(), "inputs": s.S.Inputs, "observed": s.S.Obs, "end": s.S.End})
	}
	if len(scripts) > 0 {
		txt := scripts[0].SMT
		if len(txt) > 3000 {
			txt = txt[:3000] + "\n... (truncated)"
		}
		sampleOut = append(sampleOut, map[string]interface{}{"kind": "obligation", "msg": scripts[0].Msg, "expect": scripts[0].Expect, "smtlib": txt})
	}
	for i, it := range items {
		if i >= 4 {
			break
		}
		sampleOut = append(sampleOut, map[string]interface{}{"kind": "configuration", "item": it.String(), "label": it.Label})
	}
	sampleOut = append(sampleOut, violationSamples...)
	ev := map[string]interface{}{
		"property_id": id,
		"tier":        tier,
		"seed":        seed,
		"level":       "model_checking",
		"coverage": map[string]interface{}{
			"states":                        maxInt(paths, 0),
			"transitions":                   queries,
			"traces_validated_against_impl": validated,
			"samples":                       sampleOut,
			"obligations":                   obligations,
			"discharged":                    discharged,
			"obligations_trivially_true":    trivial,
			"configurations":                len(items),
			"exhaustive":                    def.Exhaustive && tier == "thorough",
			"rule":                          def.Rule,
			"path_ends":                     ends,
			"reachability_witnesses":        covers,
			"solver":                        map[string]interface{}{"primary": "z3 5.1.0 (z3-new -in, QF_BV, global definitions + check-sat-assuming, reset per configuration)", "queries": queries, "sat": sat, "unsat": unsat, "unknown": unknown, "solve_s": round2(solve.Seconds())},
			"cross_solver_rechecked":        crossChecked,
			"bounds":                        def.Bounds,
			"functions_encoded":             sortedKeys(funcs),
			"stdlib_executed_as_ssa":        sortedKeys(ssaLib),
			"intrinsics_and_stubs":          sortedKeys(intr),
			"notes":                         notes,
			"engine_native_mismatches":      len(mismatches),
			"inconclusive":                  inconclusive,
			"known_findings_seen":           sortedKeys(knownSeen),
		},
		"assumptions": def.Assumptions,
		"wall_s":      round2(time.Since(t0).Seconds()),
		"violations":  violations,
	}
	evDir := filepath.Join(verifRoot(), "evidence")
	os.MkdirAll(evDir, 0755)
	b, _ := json.MarshalIndent(ev, "", " ")
	os.WriteFile(filepath.Join(evDir, id+".json"), b, 0644)
	fmt.Printf("%s %s: items=%d paths=%d queries=%d (sat %d, unsat %d, unknown %d) obligations=%d discharged=%d native-validated=%d cross-checked=%d solver=%.1fs wall=%.1fs exit=%d\n",
		id, tier, len(items), paths, queries, sat, unsat, unknown, obligations, discharged, validated, crossChecked, solve.Seconds(), time.Since(t0).Seconds(), exit)
	return exit
}

// i0 finds the index of candidate c among cands (by identity of item and inputs pointer).
func i0(chosen []int, c candidate) int {
	return c.idx
}

func maxInt(a, b int) int {
	if a > b {
		return a
	}
	return b
}

func round2(f float64) float64 { return float64(int(f*100+0.5)) / 100 }

func sortedKeys(m map[string]bool) []string {
	out := make([]string, 0, len(m))
	for k := range m {
		out = append(out, k)
	}
	sort.Strings(out)
	return out
}

func mustJSON(v interface{}) string {
	b, _ := json.Marshal(v)
	return string(b)
}

func tail(s string, n int) string {
	lines := strings.Split(s, "\n")
	if len(lines) > n {
		lines = lines[len(lines)-n:]
	}
	return strings.Join(lines, "\n")
}

type replayFile struct {
	Property string                 `json:"property"`
	Harness  string                 `json:"harness"`
	Cfg      []int                  `json:"cfg"`
	Inputs   map[string]interface{} `json:"inputs"`
	Msg      string                 `json:"msg"`
	Known    string                 `json:"known,omitempty"`
}

func writeReplay(id string, c candidate) string {
	rf := replayFile{Property: id, Harness: c.It.Harness, Cfg: c.It.Cfg, Inputs: c.V.Inputs, Msg: c.V.Msg, Known: c.V.Known}
	b, _ := json.MarshalIndent(rf, "", " ")
	h := sha1.Sum(b)
	p := filepath.Join(verifRoot(), "replays", fmt.Sprintf("%s_%x.json", id, h[:5]))
	os.WriteFile(p, b, 0644)
	return p
}

func cmdReplay(path string) int {
	b, err := os.ReadFile(path)
	if err != nil {
		fmt.Fprintln(os.Stderr, err)
		return 2
	}
	var rf replayFile
	if err := json.Unmarshal(b, &rf); err != nil {
		fmt.Fprintln(os.Stderr, err)
		return 2
	}
	if strings.Contains(rf.Msg, "data race") {
		var cs []nativeCase
		for j := 0; j < 200; j++ {
			cs = append(cs, nativeCase{Harness: rf.Harness, Cfg: rf.Cfg, Inputs: rf.Inputs})
		}
		_, rout, rerr := nativeRun(cs, true)
		if rerr != nil && strings.Contains(rout, "DATA RACE") {
			fmt.Println(raceExcerpt(rout))
			fmt.Printf("REPRODUCED property=%s: %s\n", rf.Property, rf.Msg)
			return 1
		}
		fmt.Println("not reproduced under the race detector in 200 runs")
		return 0
	}
	n := 1
	if strings.Contains(rf.Msg, "block forever") || (strings.Contains(rf.Msg, "deadlock") && !strings.HasPrefix(rf.Msg, "deadlock:")) {
		n = 400
	}
	var cases []nativeCase
	for j := 0; j < n; j++ {
		cases = append(cases, nativeCase{Harness: rf.Harness, Cfg: rf.Cfg, Inputs: rf.Inputs})
	}
	res, out, err := nativeRun(cases, false)
	if os.Getenv("VERIF_SCHED_DEBUG") != "" {
		fmt.Println(out)
	}
	if err == nil {
		for _, r := range res {
			if len(r.Failures) > 0 {
				res[0] = r
				break
			}
		}
	}
	if err != nil {
		fmt.Fprintln(os.Stderr, err, "\n", out)
		return 2
	}
	r := res[0]
	fmt.Printf("native run of %s%v: end=%s panic=%q failures=%q known=%q observed=%s\n", rf.Harness, rf.Cfg, r.End, r.Panic, r.Failures, r.Known, mustJSON(r.Obs))
	for _, f := range r.Failures {
		if f == rf.Msg {
			fmt.Printf("REPRODUCED property=%s: %s\n", rf.Property, rf.Msg)
			return 1
		}
	}
	if strings.HasPrefix(rf.Msg, "uncaught panic") && r.End == "panic" {
		fmt.Printf("REPRODUCED property=%s: %s\n", rf.Property, rf.Msg)
		return 1
	}
	if strings.HasPrefix(rf.Msg, "deadlock:") && r.End == "hang" {
		fmt.Printf("REPRODUCED property=%s: %s (the native run did not return)\n", rf.Property, rf.Msg)
		return 1
	}
	fmt.Println("not reproduced")
	return 0
}

// crossCheck re-asks sampled discharged obligations to z3 4.8.12 and cvc5.
func crossCheck(scripts []vexec.ObligationScript, tier string, seed int) (int, []string) {
	if len(scripts) == 0 {
		return 0, nil
	}
	limit := 6
	if tier == "thorough" {
		limit = 40
	}
	if len(scripts) > limit {
		step := len(scripts)/limit + 1
		var th []vexec.ObligationScript
		for i := seed % step; i < len(scripts); i += step {
			th = append(th, scripts[i])
		}
		scripts = th
	}
	wd, err := workDir()
	if err != nil {
		return 0, []string{err.Error()}
	}
	var mu sync.Mutex
	var disagree []string
	checked := 0
	var wg sync.WaitGroup
	sem := make(chan struct{}, 8)
	for i, sc := range scripts {
		f := filepath.Join(wd, fmt.Sprintf("ob%d.smt2", i))
		os.WriteFile(f, []byte(sc.SMT), 0644)
		for _, solver := range [][]string{{"z3", "-T:60"}, {"cvc5", "--tlimit=60000"}} {
			wg.Add(1)
			go func(sc vexec.ObligationScript, f string, solver []string) {
				defer wg.Done()
				sem <- struct{}{}
				defer func() { <-sem }()
				out, _ := exec.Command(solver[0], append(solver[1:], f)...).CombinedOutput()
				ans := strings.TrimSpace(string(out))
				mu.Lock()
				defer mu.Unlock()
				if ans == sc.Expect {
					checked++
				} else if strings.Contains(ans, "timeout") || ans == "unknown" || strings.Contains(ans, "interrupted") {
					// a slower solver running out of time is not a disagreement
				} else {
					disagree = append(disagree, fmt.Sprintf("%s answered %q for obligation %q (expected %s)", solver[0], firstLine(ans), sc.Msg, sc.Expect))
				}
			}(sc, f, solver)
		}
	}
	wg.Wait()
	os.RemoveAll(wd)
	return checked, disagree
}

func raceExcerpt(out string) string {
	i := strings.Index(out, "WARNING: DATA RACE")
	if i < 0 {
		return ""
	}
	ex := out[i:]
	lines := strings.Split(ex, "\n")
	if len(lines) > 14 {
		lines = lines[:14]
	}
	return strings.Join(lines, "\n")
}

func firstLine(s string) string {
	if i := strings.Index(s, "\n"); i >= 0 {
		return s[:i]
	}
	return s
}
