package main

func cmdCheck(id, tier string) int { return 2 }
func cmdReplay(f string) int      { return 2 }
func cmdSelftest() int            { return 2 }
