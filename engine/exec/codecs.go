package exec

import (
	"fmt"
	"go/types"

	"verif/engine/sym"
)

// EncInfo marks an opaque byte string as the complete output of one compressor
// stream: ENC(coding, payload chunks).
type EncInfo struct {
	Coding  string
	Payload []*Str
	ID      int
	Members int // > 1: the stream consists of several members (gzip); a reader told not to continue reads the first only
}

// CodecInfo marks an opaque byte string as the serialisation of one value by encoding/json or encoding/xml
// (trusted: the standard library decodes it back to an equal value; DESIGN C16).
type CodecInfo struct {
	Kind string     // "json" | "xml"
	Val  Value      // snapshot of the serialised value (pointers followed once)
	T    types.Type // its type
}

// codecInfoOf snapshots the value handed to a marshalling function.
func (e *Exec) codecInfoOf(st *State, kind string, v Value) *CodecInfo {
	i, ok := v.(*Iface)
	if !ok || i.T == nil {
		return nil
	}
	t, val := i.T, i.V
	if pt, ok := t.Underlying().(*types.Pointer); ok {
		p, ok := val.(*Ptr)
		if !ok || p.IsNil() {
			return nil
		}
		t, val = pt.Elem(), st.load(p)
	}
	return &CodecInfo{Kind: kind, Val: val, T: t}
}

// flattenBody: the chunks a body consists of (identity "ENC" tokens made by verifPackBody are looked through).
func flattenBody(s *Str, out []*Str) []*Str {
	if s.Enc != nil && s.Enc.Coding == "" {
		for _, c := range s.Enc.Payload {
			out = flattenBody(c, out)
		}
		return out
	}
	return append(out, s)
}

// readerContent resolves what reading r to the end would deliver. status: "ok" (chunks valid), "bad" (a decoder in the
// chain fails: not a stream of its coding, or nothing left to read), "unknown" (the chain cannot be resolved).
// sources are the objects the bytes are finally taken from (marked consumed by a read).
func (e *Exec) readerContent(st *State, r Value, depth int) (chunks []*Str, sources []*Ptr, status string) {
	if depth > 8 {
		return nil, nil, "unknown"
	}
	if depth == 0 {
		e.badPartial = false
	}
	switch x := r.(type) {
	case *Iface:
		if x.T == nil {
			return nil, nil, "unknown"
		}
		return e.readerContent(st, x.V, depth+1)
	case *StructV:
		if len(x.F) == 1 { // io.nopCloser and friends
			return e.readerContent(st, x.F[0], depth+1)
		}
	case *Ptr:
		if x.IsNil() {
			return nil, nil, "unknown"
		}
		switch o := st.heap[x.Obj].V.(type) {
		case *StructV:
			if t := st.heap[x.Obj].Typ; len(x.Path) == 0 && t != nil && t.String() == "io.LimitedReader" && len(o.F) == 2 {
				// transparent when the limit is the length of the very bytes underneath; a limit taken from somewhere
				// else (the wire length of a compressed body applied to the decoded stream) may cut the content short
				in, srcs, stt := e.readerContent(st, o.F[0], depth+1)
				if stt != "ok" {
					return nil, srcs, stt
				}
				n, _ := o.F[1].(*sym.Term)
				if d := e.directData(st, o.F[0], 0); d != nil && n != nil && (n == e.lenOf(d) || e.C.Sle(e.i64(d.Max), n).IsTrue()) {
					return in, srcs, "ok"
				}
				e.badPartial = true
				return nil, srcs, "bad"
			}
			if t := st.heap[x.Obj].Typ; len(x.Path) == 0 && t != nil && t.String() == "bytes.Buffer" {
				d, ok := o.F[0].(*Str)
				if !ok || d.Nil || (d.IsConc && d.Conc == "") {
					return nil, []*Ptr{x}, "bad" // nothing (left) to read
				}
				return flattenBody(d, nil), []*Ptr{x}, "ok"
			}
			if len(x.Path) == 0 && len(o.F) == 1 {
				return e.readerContent(st, o.F[0], depth+1)
			}
		case *ModelV:
			switch o.Kind {
			case "verif.body", "bytes.Reader":
				if c, ok := o.F["consumed"].(*sym.Term); ok && c.IsTrue() {
					return nil, []*Ptr{x}, "bad"
				}
				d, ok := o.F["data"].(*Str)
				if !ok {
					return nil, nil, "unknown"
				}
				return flattenBody(d, nil), []*Ptr{x}, "ok"
			case "gzip.Reader", "zlib.reader":
				coding := "gzip"
				if o.Kind == "zlib.reader" {
					coding = "deflate"
				}
				src, ok := o.F["src"]
				if !ok {
					return nil, nil, "unknown"
				}
				if sp, ok := src.(*Ptr); ok && sp.Obj == x.Obj {
					return nil, nil, "bad" // reset onto itself
				}
				in, srcs, stt := e.readerContent(st, src, depth+1)
				if stt != "ok" {
					return nil, srcs, stt
				}
				if len(in) != 1 || in[0].Enc == nil || in[0].Enc.Coding != coding {
					// a stream that was cut short delivers what it still holds before it fails; one whose header is
					// destroyed (or that is no stream at all) delivers nothing
					e.badPartial = len(in) == 1 && in[0].Enc != nil && in[0].Enc.Coding == "corrupt" && in[0].Enc.Members == 0
					return nil, srcs, "bad"
				}
				if ms, ok := o.F["multistream"].(*sym.Term); ok && ms.IsFalse() && in[0].Enc.Members > 1 {
					e.badPartial = true
					return nil, srcs, "bad" // only the first member is delivered: a cut document
				}
				var out []*Str
				for _, c := range in[0].Enc.Payload {
					out = flattenBody(c, out)
				}
				return out, srcs, "ok"
			}
		}
	}
	return nil, nil, "unknown"
}

// directData: the byte string a reader delivers unchanged (no decompressor in between), nil if there is none.
func (e *Exec) directData(st *State, r Value, depth int) *Str {
	if depth > 6 {
		return nil
	}
	switch x := r.(type) {
	case *Iface:
		if x.T != nil {
			return e.directData(st, x.V, depth+1)
		}
	case *StructV:
		if len(x.F) == 1 {
			return e.directData(st, x.F[0], depth+1)
		}
	case *Ptr:
		if x.IsNil() {
			return nil
		}
		switch o := st.heap[x.Obj].V.(type) {
		case *StructV:
			if len(x.Path) == 0 && len(o.F) == 1 {
				return e.directData(st, o.F[0], depth+1)
			}
		case *ModelV:
			if o.Kind == "verif.body" || o.Kind == "bytes.Reader" {
				d, _ := o.F["data"].(*Str)
				return d
			}
		}
	}
	return nil
}

func (e *Exec) consumeSources(st *State, srcs []*Ptr) {
	for _, p := range srcs {
		switch o := st.heap[p.Obj].V.(type) {
		case *ModelV:
			st.setObj(p.Obj, o.with("consumed", e.C.True))
		case *StructV: // bytes.Buffer: drained
			st.store(p.sub(0), e.ConcStr(""))
		}
	}
}

// packChunks: one byte string standing for the concatenation of the chunks (their tags stay visible).
func (e *Exec) packChunks(st *State, chunks []*Str) *Str {
	var keep []*Str
	for _, c := range chunks {
		if !(c.IsConc && c.Conc == "") {
			keep = append(keep, c)
		}
	}
	switch len(keep) {
	case 0:
		return e.ConcStr("")
	case 1:
		return keep[0]
	}
	tok := e.opaqueStr(st, "joined", 2)
	e.assumeTrusted(st, e.C.Sge(tok.Len, e.i64(1)))
	tok.Enc = &EncInfo{Coding: "", Payload: keep, ID: -1}
	return tok
}

// readAllOf: what reading r to the end yields: the data (an opaque rest for a failing stream) and whether it failed.
func (e *Exec) readAllOf(st *State, r Value) (*Str, bool, bool) {
	chunks, srcs, status := e.readerContent(st, r, 0)
	if status == "unknown" {
		return nil, false, false
	}
	e.consumeSources(st, srcs)
	if status != "ok" {
		if e.badPartial {
			return e.opaqueStr(st, "partial", 2), true, true
		}
		return e.ConcStr(""), true, true
	}
	return e.packChunks(st, chunks), false, true
}

// decodeChunks: the decoder of the kind applied to a document given as chunks; stores into target on success.
func (e *Exec) decodeChunks(st *State, kind string, chunks []*Str, target Value, useNumber bool) Value {
	var doc *Str
	for _, c := range chunks {
		switch {
		case c.Codec != nil && doc == nil:
			doc = c
		case c.Codec == nil && c.IsConc && (c.Conc == "" || (kind == "xml" && doc == nil && c.Conc == xmlHeader)):
		default:
			return e.errorValue(st, kind+": syntax error (stub)")
		}
	}
	if doc == nil || doc.Codec.Kind != kind {
		return e.errorValue(st, kind+": syntax error (stub)")
	}
	// store the value into the target when it has the type that was serialised
	if tgt, ok := target.(*Iface); ok && tgt.T != nil {
		if pt, ok := tgt.T.Underlying().(*types.Pointer); ok {
			if p, ok := tgt.V.(*Ptr); ok && !p.IsNil() && types.Identical(pt.Elem(), doc.Codec.T) {
				v := doc.Codec.Val
				if kind == "json" && !useNumber {
					v = e.lossyNumbers(st, v)
				}
				st.store(p, v)
			}
		}
	}
	return nilIface
}

// lossyNumbers: what encoding/json makes of numbers decoded into interface{} without UseNumber: float64. Modelled
// as: exact for |n| <= 2^53 and for even n, anything for odd n beyond (those are never representable).
func (e *Exec) lossyNumbers(st *State, v Value) Value {
	sv, ok := v.(*StructV)
	if !ok {
		return v
	}
	f := append([]Value{}, sv.F...)
	for i, x := range f {
		ifc, ok := x.(*Iface)
		if !ok || ifc.T == nil {
			continue
		}
		b, ok := ifc.T.Underlying().(*types.Basic)
		t, isT := ifc.V.(*sym.Term)
		if !ok || !isT || b.Kind() != types.Int64 {
			continue
		}
		lim := int64(1) << 53
		small := e.C.And(e.C.Sle(e.C.BV(uint64(-lim), 64), t), e.C.Sle(t, e.C.BV(uint64(lim), 64)))
		even := e.C.Eq(e.C.BvAnd(t, e.C.BV(1, 64)), e.C.BV(0, 64))
		fv := e.freshVar("float64", 64)
		e.assumeTrusted(st, e.C.Or(e.C.Not(e.C.Or(small, even)), e.C.Eq(fv, t)))
		f[i] = &Iface{T: ifc.T, V: fv}
	}
	return &StructV{F: f}
}

func (e *Exec) codecSeq(st *State, key string) int {
	n := e.extraInt(st, "seq:"+key)
	st.extra["seq:"+key] = e.i64(n + 1)
	return n
}

const xmlHeader = "<?xml version=\"1.0\" encoding=\"UTF-8\"?>\n"

// PayloadCap is the capacity of opaque codec outputs.
var PayloadCap = 3

// marshalVerdict: the harness types vBadEntity (never marshallable, natively too) and vEntity (always
// marshallable) make marshalling errors reproducible natively; for every other value the error is a
// nondeterministic stub input.
func marshalVerdict(v Value) string {
	if i, ok := v.(*Iface); ok && i.T != nil {
		t := i.T
		if p, ok := t.(*types.Pointer); ok {
			t = p.Elem()
		}
		if n, ok := t.(*types.Named); ok {
			switch n.Obj().Name() {
			case "vBadEntity":
				return "fail"
			case "vEntity", "vEnt16J", "vEnt16X":
				return "ok"
			}
		}
	}
	return ""
}

func (e *Exec) marshalFailVar(st *State, name string, v Value) *sym.Term {
	switch marshalVerdict(v) {
	case "fail":
		return e.C.True
	case "ok":
		return e.C.False
	}
	failV := e.C.Var(name+"!err", 0)
	e.addInput(st, name+"!err", "bool", failV)
	return failV
}

func registerCodecs(m map[string]Intrinsic) {
	// ---- marshalling: value-determined opaque output, optional error
	marshal := func(kind string) Intrinsic {
		return func(e *Exec, st *State, ci *CallInfo) Outcome {
			k := e.codecSeq(st, kind)
			name := fmt.Sprintf("%s!%d", kind, k)
			failV := e.marshalFailVar(st, name, ci.Args[0])
			return Outcome{Kind: OutAlts, Exhaustive: true, Alts: []AltOut{
				{Cond: e.C.Not(failV), ValFn: func(s2 *State) (Value, bool) {
					out, cons := e.NewSymStr(name, PayloadCap)
					for _, cn := range cons {
						e.assumeTrusted(s2, cn)
					}
					e.addInput(s2, name, "string", out)
					out.Codec = e.codecInfoOf(s2, kind, ci.Args[0])
					return tuple(out, nilIface), true
				}},
				{Cond: failV, ValFn: func(s2 *State) (Value, bool) {
					return tuple(&Str{IsConc: true, Nil: true}, e.errorValue(s2, kind+": marshal error (stub)")), true
				}, Tag: name + "!err"},
			}}
		}
	}
	m["encoding/json.MarshalIndent"] = marshal("json")
	m["encoding/json.Marshal"] = marshal("json")
	m["encoding/xml.MarshalIndent"] = marshal("xml")
	m["encoding/xml.Marshal"] = marshal("xml")
	newEncoder := func(kind string) Intrinsic {
		return func(e *Exec, st *State, ci *CallInfo) Outcome {
			return val(e.newModel(st, kind+".Encoder", map[string]Value{"w": ci.Args[0]}))
		}
	}
	m["encoding/json.NewEncoder"] = newEncoder("json")
	m["encoding/xml.NewEncoder"] = newEncoder("xml")
	encode := func(kind string) Intrinsic {
		return func(e *Exec, st *State, ci *CallInfo) Outcome {
			_, mv := e.model(st, ci.Args[0], kind+".Encoder")
			w := mv.F["w"].(*Iface)
			k := e.codecSeq(st, kind)
			name := fmt.Sprintf("%s!%d", kind, k)
			failV := e.marshalFailVar(st, name, ci.Args[1])
			return Outcome{Kind: OutAlts, Exhaustive: true, Alts: []AltOut{
				{Cond: e.C.Not(failV), Do: func(s2 *State) bool {
					out, cons := e.NewSymStr(name, PayloadCap)
					for _, cn := range cons {
						e.assumeTrusted(s2, cn)
					}
					e.addInput(s2, name, "string", out)
					out.Codec = e.codecInfoOf(s2, kind, ci.Args[1])
					o := e.tailMethod(s2, w, "Write", []Value{out}, func(_ *State, res Value) Value {
						return res.(*TupleV).E[1]
					})
					e.finishIntrinsic(s2, s2.top(), ci.Call, o, ci.deferredCall)
					return false
				}},
				{Cond: failV, ValFn: func(s2 *State) (Value, bool) {
					return e.errorValue(s2, kind+": encode error (stub)"), true
				}, Tag: name + "!err"},
			}}
		}
	}
	m["(*encoding/json.Encoder).Encode"] = encode("json")
	m["(*encoding/xml.Encoder).Encode"] = encode("xml")
	newDecoder := func(kind string) Intrinsic {
		return func(e *Exec, st *State, ci *CallInfo) Outcome {
			return val(e.newModel(st, kind+".Decoder", map[string]Value{"r": ci.Args[0]}))
		}
	}
	m["encoding/json.NewDecoder"] = newDecoder("json")
	m["encoding/xml.NewDecoder"] = newDecoder("xml")
	m["(*encoding/json.Decoder).UseNumber"] = func(e *Exec, st *State, ci *CallInfo) Outcome {
		p, mv := e.model(st, ci.Args[0], "json.Decoder")
		st.setObj(p.Obj, mv.with("usenumber", e.C.True))
		return val(nil)
	}
	decode := func(kind string) Intrinsic {
		return func(e *Exec, st *State, ci *CallInfo) Outcome {
			_, mv := e.model(st, ci.Args[0], kind+".Decoder")
			chunks, srcs, status := e.readerContent(st, mv.F["r"], 0)
			if status == "unknown" {
				// a source the model cannot look into: succeeds or fails, stores nothing
				k := e.codecSeq(st, kind+"dec")
				failV := e.C.Var(fmt.Sprintf("%sdec!%d!err", kind, k), 0)
				return Outcome{Kind: OutAlts, Exhaustive: true, Alts: []AltOut{
					{Cond: e.C.Not(failV), Val: nilIface},
					{Cond: failV, ValFn: func(s2 *State) (Value, bool) {
						return e.errorValue(s2, kind+": decode error (stub)"), true
					}},
				}}
			}
			e.consumeSources(st, srcs)
			if status != "ok" {
				return val(e.errorValue(st, kind+": unreadable input (stub)"))
			}
			un, _ := mv.F["usenumber"].(*sym.Term)
			return val(e.decodeChunks(st, kind, chunks, ci.Args[1], un != nil && un.IsTrue()))
		}
	}
	m["(*encoding/json.Decoder).Decode"] = decode("json")
	m["(*encoding/xml.Decoder).Decode"] = decode("xml")

	unmarshal := func(kind string) Intrinsic {
		return func(e *Exec, st *State, ci *CallInfo) Outcome {
			return val(e.decodeChunks(st, kind, flattenBody(sArg(ci, 0), nil), ci.Args[1], false))
		}
	}
	m["encoding/json.Unmarshal"] = unmarshal("json")
	m["encoding/xml.Unmarshal"] = unmarshal("xml")
	readAll := func(e *Exec, st *State, ci *CallInfo) Outcome {
		data, failed, ok := e.readAllOf(st, ci.Args[0])
		if !ok {
			unsupportedf("ReadAll of a reader the model cannot look into")
		}
		if failed {
			return val(tuple(data, e.errorValue(st, "unexpected EOF (stub)")))
		}
		return val(tuple(data, nilIface))
	}
	m["io.ReadAll"] = readAll
	m["io/ioutil.ReadAll"] = readAll
	m["(*bytes.Buffer).ReadFrom"] = func(e *Exec, st *State, ci *CallInfo) Outcome {
		p := ci.Args[0].(*Ptr)
		data, failed, ok := e.readAllOf(st, ci.Args[1])
		if !ok {
			unsupportedf("ReadFrom of a reader the model cannot look into")
		}
		old, _ := st.load(p.sub(0)).(*Str)
		if old == nil || old.Nil {
			old = e.ConcStr("")
		}
		st.store(p.sub(0), e.packChunks(st, append(flattenBody(old, nil), flattenBody(data, nil)...)))
		if failed {
			return val(tuple(e.lenOf(data), e.errorValue(st, "unexpected EOF (stub)")))
		}
		return val(tuple(e.lenOf(data), nilIface))
	}
	m["(*compress/gzip.Reader).Multistream"] = func(e *Exec, st *State, ci *CallInfo) Outcome {
		p, mv := e.model(st, ci.Args[0], "gzip.Reader")
		st.setObj(p.Obj, mv.with("multistream", ci.Args[1]))
		return val(nil)
	}
	// ---- compressors: typestate objects
	newWriter := func(kind string) Intrinsic {
		return func(e *Exec, st *State, ci *CallInfo) Outcome {
			id := e.codecSeq(st, "compressor")
			p := e.newModel(st, kind, map[string]Value{"dest": ci.Args[0], "open": e.C.False, "closed": e.C.False,
				"payload": &TupleV{}, "id": e.i64(id), "streams": e.i64(0)})
			return val(tuple(p, nilIface))
		}
	}
	m["compress/gzip.NewWriterLevel"] = newWriter("gzip.Writer")
	m["compress/zlib.NewWriterLevel"] = newWriter("zlib.Writer")
	for _, kind := range []string{"gzip.Writer", "zlib.Writer"} {
		kind := kind
		coding := "gzip"
		pfx := "(*compress/gzip.Writer)."
		if kind == "zlib.Writer" {
			coding = "deflate"
			pfx = "(*compress/zlib.Writer)."
		}
		m[pfx+"Reset"] = func(e *Exec, st *State, ci *CallInfo) Outcome {
			p, mv := e.model(st, ci.Args[0], kind)
			nm := mv.with("dest", ci.Args[1]).with("open", e.C.True).with("closed", e.C.False).with("payload", &TupleV{})
			st.setObj(p.Obj, nm)
			return val(nil)
		}
		m[pfx+"Write"] = func(e *Exec, st *State, ci *CallInfo) Outcome {
			p, mv := e.model(st, ci.Args[0], kind)
			if mv.F["closed"].(*sym.Term).IsTrue() {
				return val(tuple(e.i64(0), e.errorValue(st, coding+": write to closed writer")))
			}
			b := sArg(ci, 1)
			old := mv.F["payload"].(*TupleV)
			st.setObj(p.Obj, mv.with("payload", &TupleV{E: append(append([]Value{}, old.E...), b)}))
			return val(tuple(e.lenOf(b), nilIface))
		}
		m[pfx+"Flush"] = func(e *Exec, st *State, ci *CallInfo) Outcome { return val(nilIface) }
		m[pfx+"Close"] = func(e *Exec, st *State, ci *CallInfo) Outcome {
			p, mv := e.model(st, ci.Args[0], kind)
			if mv.F["closed"].(*sym.Term).IsTrue() {
				return val(nilIface)
			}
			var chunks []*Str
			for _, v := range mv.F["payload"].(*TupleV).E {
				chunks = append(chunks, v.(*Str))
			}
			idv, _ := mv.F["id"].(*sym.Term).ConstVal()
			nstreams, _ := mv.F["streams"].(*sym.Term).ConstVal()
			st.setObj(p.Obj, mv.with("closed", e.C.True).with("open", e.C.False).with("streams", e.i64(int(nstreams)+1)))
			dest, ok := mv.F["dest"].(*Iface)
			if !ok || dest.T == nil {
				return val(nilIface)
			}
			tok, cons := e.NewSymStr(fmt.Sprintf("enc!%d!%d", idv, nstreams), 2)
			for _, cn := range cons {
				e.assumeTrusted(st, cn)
			}
			e.assumeTrusted(st, e.C.Sge(tok.Len, e.i64(1)))
			tok.Enc = &EncInfo{Coding: coding, Payload: chunks, ID: int(idv)}
			return e.tailMethod(st, dest, "Write", []Value{tok}, func(_ *State, res Value) Value {
				return res.(*TupleV).E[1]
			})
		}
	}
	m["compress/gzip.NewReader"] = func(e *Exec, st *State, ci *CallInfo) Outcome {
		id := e.codecSeq(st, "compressor")
		return val(tuple(e.newModel(st, "gzip.Reader", map[string]Value{"src": ci.Args[0], "id": e.i64(id)}), nilIface))
	}
	m["(*compress/gzip.Reader).Reset"] = func(e *Exec, st *State, ci *CallInfo) Outcome {
		p, mv := e.model(st, ci.Args[0], "gzip.Reader")
		st.setObj(p.Obj, mv.with("src", ci.Args[1]).with("multistream", e.C.True))
		if _, _, status := e.readerContent(st, p, 0); status == "ok" {
			return val(nilIface)
		} else if status == "bad" {
			return val(e.errorValue(st, "gzip: invalid header"))
		}
		// a source the model cannot look into may not be a gzip stream: Reset fails or succeeds
		k := e.codecSeq(st, "gzipreset")
		failV := e.C.Var(fmt.Sprintf("gzipreset!%d!err", k), 0)
		return Outcome{Kind: OutAlts, Exhaustive: true, Alts: []AltOut{
			{Cond: e.C.Not(failV), Val: nilIface},
			{Cond: failV, ValFn: func(s2 *State) (Value, bool) { return e.errorValue(s2, "gzip: invalid header"), true }, Tag: "gzipreset!err"},
		}}
	}
	m["(*compress/gzip.Reader).Close"] = func(e *Exec, st *State, ci *CallInfo) Outcome { return val(nilIface) }
	m["compress/zlib.NewReader"] = func(e *Exec, st *State, ci *CallInfo) Outcome {
		if in, _, status := e.readerContent(st, ci.Args[0], 0); status == "ok" && len(in) == 1 && in[0].Enc != nil && in[0].Enc.Coding == "deflate" {
			p := e.newModel(st, "zlib.reader", map[string]Value{"src": ci.Args[0]})
			return val(tuple(&Iface{T: e.namedType("io", "ReadCloser"), V: p}, nilIface))
		} else if status != "unknown" {
			return val(tuple(nilIface, e.errorValue(st, "zlib: invalid header")))
		}
		k := e.codecSeq(st, "zlibreader")
		failV := e.C.Var(fmt.Sprintf("zlibreader!%d!err", k), 0)
		return Outcome{Kind: OutAlts, Exhaustive: true, Alts: []AltOut{
			{Cond: e.C.Not(failV), ValFn: func(s2 *State) (Value, bool) {
				p := e.newModel(s2, "zlib.reader", map[string]Value{"src": ci.Args[0]})
				return tuple(&Iface{T: e.namedType("io", "ReadCloser"), V: p}, nilIface), true
			}},
			{Cond: failV, ValFn: func(s2 *State) (Value, bool) {
				return tuple(nilIface, e.errorValue(s2, "zlib: invalid header")), true
			}},
		}}
	}
	// harness view of encoded tokens
	m[hp+"verifEncCoding"] = func(e *Exec, st *State, ci *CallInfo) Outcome {
		s := sArg(ci, 0)
		if s.Enc == nil {
			return val(e.ConcStr(""))
		}
		return val(e.ConcStr(s.Enc.Coding))
	}
	m[hp+"verifDecodeBody"] = func(e *Exec, st *State, ci *CallInfo) Outcome {
		chunks := e.sliceElems(st, ci.Args[0].(*SliceV))
		coding := mustConc(ci.Args[1], "coding")
		fail := tuple(&Str{IsConc: true, Nil: true}, e.C.False)
		if coding == "" {
			out := e.ConcStr("")
			for _, c := range chunks {
				s := c.(*Str)
				if s.Enc != nil {
					return val(fail)
				}
				out = e.Concat(out, s)
			}
			return val(tuple(out, e.C.True))
		}
		if len(chunks) != 1 {
			return val(fail)
		}
		s := chunks[0].(*Str)
		if s.Enc == nil || s.Enc.Coding != coding {
			return val(fail)
		}
		out := e.ConcStr("")
		for _, c := range s.Enc.Payload {
			out = e.Concat(out, c)
		}
		return val(tuple(out, e.C.True))
	}
	// ---- request bodies for the write-then-read harness (C16)
	m[hp+"verifBody"] = func(e *Exec, st *State, ci *CallInfo) Outcome {
		p := e.newModel(st, "verif.body", map[string]Value{"data": ci.Args[0]})
		return val(&Iface{T: e.namedType("io", "ReadCloser"), V: p})
	}
	m[hp+"verifPackBody"] = func(e *Exec, st *State, ci *CallInfo) Outcome {
		coding := mustConc(ci.Args[0], "coding")
		var chunks []*Str
		for _, c := range e.sliceElems(st, ci.Args[1].(*SliceV)) {
			chunks = append(chunks, c.(*Str))
		}
		tok := e.opaqueStr(st, "packed", 2)
		e.assumeTrusted(st, e.C.Sge(tok.Len, e.i64(1)))
		tok.Enc = &EncInfo{Coding: coding, Payload: chunks, ID: -1}
		if coding == "gzip2" { // the same bytes as a gzip stream of two members
			tok.Enc.Coding, tok.Enc.Members = "gzip", 2
		}
		return val(tok)
	}
	m[hp+"verifCorruptBody"] = func(e *Exec, st *State, ci *CallInfo) Outcome {
		tok := e.opaqueStr(st, "corrupt", 2)
		tok.Enc = &EncInfo{Coding: "corrupt", Members: constInt(ci.Args[1], "corruption mode"), ID: -1} // Members: the mode (0 cut short, 1 header destroyed)
		return val(tok)
	}
	m[hp+"verifAsInt64"] = func(e *Exec, st *State, ci *CallInfo) Outcome {
		if i, ok := ci.Args[0].(*Iface); ok && i.T != nil {
			if b, ok := i.T.Underlying().(*types.Basic); ok && b.Kind() == types.Int64 {
				return val(tuple(i.V, e.C.True))
			}
		}
		return val(tuple(e.i64(0), e.C.False))
	}
	m[hp+"verifEncChunks"] = func(e *Exec, st *State, ci *CallInfo) Outcome {
		s := sArg(ci, 0)
		if s.Enc == nil {
			return val(&SliceV{})
		}
		return val(e.mkStringSlice(st, s.Enc.Payload))
	}
}
