package exec

import (
	"fmt"
	"go/types"

	"verif/engine/sym"
)

// EncInfo marks an opaque byte string as the complete output of one compressor
// stream: ENC(coding, payload chunks).
type EncInfo struct {
	Coding  string
	Payload []*Str
	ID      int
}

func (e *Exec) codecSeq(st *State, key string) int {
	n := e.extraInt(st, "seq:"+key)
	st.extra["seq:"+key] = e.i64(n + 1)
	return n
}

// PayloadCap is the capacity of opaque codec outputs.
var PayloadCap = 3

// marshalVerdict: the harness types vBadEntity (never marshallable, natively too) and vEntity (always
// marshallable) make marshalling errors reproducible natively; for every other value the error is a
// nondeterministic stub input.
func marshalVerdict(v Value) string {
	if i, ok := v.(*Iface); ok && i.T != nil {
		t := i.T
		if p, ok := t.(*types.Pointer); ok {
			t = p.Elem()
		}
		if n, ok := t.(*types.Named); ok {
			switch n.Obj().Name() {
			case "vBadEntity":
				return "fail"
			case "vEntity":
				return "ok"
			}
		}
	}
	return ""
}

func (e *Exec) marshalFailVar(st *State, name string, v Value) *sym.Term {
	switch marshalVerdict(v) {
	case "fail":
		return e.C.True
	case "ok":
		return e.C.False
	}
	failV := e.C.Var(name+"!err", 0)
	e.addInput(st, name+"!err", "bool", failV)
	return failV
}

func registerCodecs(m map[string]Intrinsic) {
	// ---- marshalling: value-determined opaque output, optional error
	marshal := func(kind string) Intrinsic {
		return func(e *Exec, st *State, ci *CallInfo) Outcome {
			k := e.codecSeq(st, kind)
			name := fmt.Sprintf("%s!%d", kind, k)
			failV := e.marshalFailVar(st, name, ci.Args[0])
			return Outcome{Kind: OutAlts, Exhaustive: true, Alts: []AltOut{
				{Cond: e.C.Not(failV), ValFn: func(s2 *State) (Value, bool) {
					out, cons := e.NewSymStr(name, PayloadCap)
					for _, cn := range cons {
						e.assumeTrusted(s2, cn)
					}
					e.addInput(s2, name, "string", out)
					return tuple(out, nilIface), true
				}},
				{Cond: failV, ValFn: func(s2 *State) (Value, bool) {
					return tuple(&Str{IsConc: true, Nil: true}, e.errorValue(s2, kind+": marshal error (stub)")), true
				}, Tag: name + "!err"},
			}}
		}
	}
	m["encoding/json.MarshalIndent"] = marshal("json")
	m["encoding/json.Marshal"] = marshal("json")
	m["encoding/xml.MarshalIndent"] = marshal("xml")
	m["encoding/xml.Marshal"] = marshal("xml")
	newEncoder := func(kind string) Intrinsic {
		return func(e *Exec, st *State, ci *CallInfo) Outcome {
			return val(e.newModel(st, kind+".Encoder", map[string]Value{"w": ci.Args[0]}))
		}
	}
	m["encoding/json.NewEncoder"] = newEncoder("json")
	m["encoding/xml.NewEncoder"] = newEncoder("xml")
	encode := func(kind string) Intrinsic {
		return func(e *Exec, st *State, ci *CallInfo) Outcome {
			_, mv := e.model(st, ci.Args[0], kind+".Encoder")
			w := mv.F["w"].(*Iface)
			k := e.codecSeq(st, kind)
			name := fmt.Sprintf("%s!%d", kind, k)
			failV := e.marshalFailVar(st, name, ci.Args[1])
			return Outcome{Kind: OutAlts, Exhaustive: true, Alts: []AltOut{
				{Cond: e.C.Not(failV), Do: func(s2 *State) bool {
					out, cons := e.NewSymStr(name, PayloadCap)
					for _, cn := range cons {
						e.assumeTrusted(s2, cn)
					}
					e.addInput(s2, name, "string", out)
					o := e.tailMethod(s2, w, "Write", []Value{out}, func(_ *State, res Value) Value {
						return res.(*TupleV).E[1]
					})
					e.finishIntrinsic(s2, s2.top(), ci.Call, o, ci.deferredCall)
					return false
				}},
				{Cond: failV, ValFn: func(s2 *State) (Value, bool) {
					return e.errorValue(s2, kind+": encode error (stub)"), true
				}, Tag: name + "!err"},
			}}
		}
	}
	m["(*encoding/json.Encoder).Encode"] = encode("json")
	m["(*encoding/xml.Encoder).Encode"] = encode("xml")
	newDecoder := func(kind string) Intrinsic {
		return func(e *Exec, st *State, ci *CallInfo) Outcome {
			return val(e.newModel(st, kind+".Decoder", map[string]Value{"r": ci.Args[0]}))
		}
	}
	m["encoding/json.NewDecoder"] = newDecoder("json")
	m["encoding/xml.NewDecoder"] = newDecoder("xml")
	m["(*encoding/json.Decoder).UseNumber"] = noop
	decode := func(kind string) Intrinsic {
		return func(e *Exec, st *State, ci *CallInfo) Outcome {
			k := e.codecSeq(st, kind+"dec")
			failV := e.C.Var(fmt.Sprintf("%sdec!%d!err", kind, k), 0)
			return Outcome{Kind: OutAlts, Exhaustive: true, Alts: []AltOut{
				{Cond: e.C.Not(failV), Val: nilIface},
				{Cond: failV, ValFn: func(s2 *State) (Value, bool) {
					return e.errorValue(s2, kind+": decode error (stub)"), true
				}},
			}}
		}
	}
	m["(*encoding/json.Decoder).Decode"] = decode("json")
	m["(*encoding/xml.Decoder).Decode"] = decode("xml")

	// ---- compressors: typestate objects
	newWriter := func(kind string) Intrinsic {
		return func(e *Exec, st *State, ci *CallInfo) Outcome {
			id := e.codecSeq(st, "compressor")
			p := e.newModel(st, kind, map[string]Value{"dest": ci.Args[0], "open": e.C.False, "closed": e.C.False,
				"payload": &TupleV{}, "id": e.i64(id), "streams": e.i64(0)})
			return val(tuple(p, nilIface))
		}
	}
	m["compress/gzip.NewWriterLevel"] = newWriter("gzip.Writer")
	m["compress/zlib.NewWriterLevel"] = newWriter("zlib.Writer")
	for _, kind := range []string{"gzip.Writer", "zlib.Writer"} {
		kind := kind
		coding := "gzip"
		pfx := "(*compress/gzip.Writer)."
		if kind == "zlib.Writer" {
			coding = "deflate"
			pfx = "(*compress/zlib.Writer)."
		}
		m[pfx+"Reset"] = func(e *Exec, st *State, ci *CallInfo) Outcome {
			p, mv := e.model(st, ci.Args[0], kind)
			nm := mv.with("dest", ci.Args[1]).with("open", e.C.True).with("closed", e.C.False).with("payload", &TupleV{})
			st.setObj(p.Obj, nm)
			return val(nil)
		}
		m[pfx+"Write"] = func(e *Exec, st *State, ci *CallInfo) Outcome {
			p, mv := e.model(st, ci.Args[0], kind)
			if mv.F["closed"].(*sym.Term).IsTrue() {
				return val(tuple(e.i64(0), e.errorValue(st, coding+": write to closed writer")))
			}
			b := sArg(ci, 1)
			old := mv.F["payload"].(*TupleV)
			st.setObj(p.Obj, mv.with("payload", &TupleV{E: append(append([]Value{}, old.E...), b)}))
			return val(tuple(e.lenOf(b), nilIface))
		}
		m[pfx+"Flush"] = func(e *Exec, st *State, ci *CallInfo) Outcome { return val(nilIface) }
		m[pfx+"Close"] = func(e *Exec, st *State, ci *CallInfo) Outcome {
			p, mv := e.model(st, ci.Args[0], kind)
			if mv.F["closed"].(*sym.Term).IsTrue() {
				return val(nilIface)
			}
			var chunks []*Str
			for _, v := range mv.F["payload"].(*TupleV).E {
				chunks = append(chunks, v.(*Str))
			}
			idv, _ := mv.F["id"].(*sym.Term).ConstVal()
			nstreams, _ := mv.F["streams"].(*sym.Term).ConstVal()
			st.setObj(p.Obj, mv.with("closed", e.C.True).with("open", e.C.False).with("streams", e.i64(int(nstreams)+1)))
			dest, ok := mv.F["dest"].(*Iface)
			if !ok || dest.T == nil {
				return val(nilIface)
			}
			tok, cons := e.NewSymStr(fmt.Sprintf("enc!%d!%d", idv, nstreams), 2)
			for _, cn := range cons {
				e.assumeTrusted(st, cn)
			}
			e.assumeTrusted(st, e.C.Sge(tok.Len, e.i64(1)))
			tok.Enc = &EncInfo{Coding: coding, Payload: chunks, ID: int(idv)}
			return e.tailMethod(st, dest, "Write", []Value{tok}, func(_ *State, res Value) Value {
				return res.(*TupleV).E[1]
			})
		}
	}
	m["compress/gzip.NewReader"] = func(e *Exec, st *State, ci *CallInfo) Outcome {
		id := e.codecSeq(st, "compressor")
		return val(tuple(e.newModel(st, "gzip.Reader", map[string]Value{"src": ci.Args[0], "id": e.i64(id)}), nilIface))
	}
	m["(*compress/gzip.Reader).Reset"] = func(e *Exec, st *State, ci *CallInfo) Outcome {
		p, mv := e.model(st, ci.Args[0], "gzip.Reader")
		st.setObj(p.Obj, mv.with("src", ci.Args[1]))
		// the source may not be a gzip stream: Reset fails or succeeds
		k := e.codecSeq(st, "gzipreset")
		failV := e.C.Var(fmt.Sprintf("gzipreset!%d!err", k), 0)
		return Outcome{Kind: OutAlts, Exhaustive: true, Alts: []AltOut{
			{Cond: e.C.Not(failV), Val: nilIface},
			{Cond: failV, ValFn: func(s2 *State) (Value, bool) { return e.errorValue(s2, "gzip: invalid header"), true }, Tag: "gzipreset!err"},
		}}
	}
	m["(*compress/gzip.Reader).Close"] = func(e *Exec, st *State, ci *CallInfo) Outcome { return val(nilIface) }
	m["compress/zlib.NewReader"] = func(e *Exec, st *State, ci *CallInfo) Outcome {
		k := e.codecSeq(st, "zlibreader")
		failV := e.C.Var(fmt.Sprintf("zlibreader!%d!err", k), 0)
		return Outcome{Kind: OutAlts, Exhaustive: true, Alts: []AltOut{
			{Cond: e.C.Not(failV), ValFn: func(s2 *State) (Value, bool) {
				p := e.newModel(s2, "zlib.reader", map[string]Value{"src": ci.Args[0]})
				return tuple(&Iface{T: e.namedType("io", "ReadCloser"), V: p}, nilIface), true
			}},
			{Cond: failV, ValFn: func(s2 *State) (Value, bool) {
				return tuple(nilIface, e.errorValue(s2, "zlib: invalid header")), true
			}},
		}}
	}
	// harness view of encoded tokens
	m[hp+"verifEncCoding"] = func(e *Exec, st *State, ci *CallInfo) Outcome {
		s := sArg(ci, 0)
		if s.Enc == nil {
			return val(e.ConcStr(""))
		}
		return val(e.ConcStr(s.Enc.Coding))
	}
	m[hp+"verifDecodeBody"] = func(e *Exec, st *State, ci *CallInfo) Outcome {
		chunks := e.sliceElems(st, ci.Args[0].(*SliceV))
		coding := mustConc(ci.Args[1], "coding")
		fail := tuple(&Str{IsConc: true, Nil: true}, e.C.False)
		if coding == "" {
			out := e.ConcStr("")
			for _, c := range chunks {
				s := c.(*Str)
				if s.Enc != nil {
					return val(fail)
				}
				out = e.Concat(out, s)
			}
			return val(tuple(out, e.C.True))
		}
		if len(chunks) != 1 {
			return val(fail)
		}
		s := chunks[0].(*Str)
		if s.Enc == nil || s.Enc.Coding != coding {
			return val(fail)
		}
		out := e.ConcStr("")
		for _, c := range s.Enc.Payload {
			out = e.Concat(out, c)
		}
		return val(tuple(out, e.C.True))
	}
	m[hp+"verifEncChunks"] = func(e *Exec, st *State, ci *CallInfo) Outcome {
		s := sArg(ci, 0)
		if s.Enc == nil {
			return val(&SliceV{})
		}
		return val(e.mkStringSlice(st, s.Enc.Payload))
	}
}
