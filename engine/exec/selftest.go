package exec

import (
	"net/url"
	"fmt"
	"math/rand"
	"regexp"
	"strings"

	"verif/engine/smt"
	"verif/engine/sym"
)

// SelfTest evaluates the string and regex summaries by constant folding on a
// corpus and compares them with the real standard library functions. The
// strings are deliberately built as non-concrete values (constant cells on a
// base with garbage behind the end) so that the symbolic code paths run.
// It returns the mismatches found.
func (e *Exec) SelfTest(corpus []string, patterns []string, seed int64) (checks int, mismatches []string) {
	rng := rand.New(rand.NewSource(seed))
	alphabet := "ab/{}:*; ,=.qA0x\n"
	for i := 0; i < 150; i++ {
		n := rng.Intn(9)
		b := make([]byte, n)
		for j := range b {
			b[j] = alphabet[rng.Intn(len(alphabet))]
		}
		corpus = append(corpus, string(b))
	}
	ev := sym.NewEvaluator(sym.Model{})
	mk := func(s string) *Str {
		pad := 2
		cells := make([]*sym.Term, len(s)+pad)
		for i := 0; i < len(s); i++ {
			cells[i] = e.C.BV(uint64(s[i]), 8)
		}
		for i := len(s); i < len(cells); i++ {
			cells[i] = e.C.BV(uint64('/'), 8) // garbage behind the end that must never be looked at
		}
		return &Str{Base: &StrBase{Cells: cells, Name: "selftest"}, Off: e.i64(0), Len: e.i64(len(s)), Max: len(cells)}
	}
	// a view with a non-zero offset
	mkOff := func(s string) *Str {
		full := mk("xy" + s)
		return &Str{Base: full.Base, Off: e.i64(2), Len: e.i64(len(s)), Max: full.Max - 2}
	}
	bad := func(what string, args ...interface{}) {
		if len(mismatches) < 20 {
			mismatches = append(mismatches, fmt.Sprintf(what, args...))
		}
	}
	cint := func(t *sym.Term) int64 { return int64(ev.Eval(t)) }
	cbool := func(t *sym.Term) bool { return ev.Eval(t) == 1 }
	seps := []string{"/", ",", ";", "=", "//", "ab", "q=0", " "}
	cuts := []string{"/", " ", "/ ", "ab"}
	for _, s := range corpus {
		if len(s) > 24 {
			continue
		}
		for _, build := range []func(string) *Str{mk, mkOff} {
			ss := build(s)
			for _, sep := range seps {
				cs := e.ConcStr(sep)
				checks += 6
				if got, want := cint(e.Index(ss, cs, nil)), int64(strings.Index(s, sep)); got != want {
					bad("Index(%q,%q)=%d want %d", s, sep, got, want)
				}
				// separator as a non-concrete value; subject as a concrete one
				checks += 2
				if got, want := cint(e.Index(ss, build(sep), nil)), int64(strings.Index(s, sep)); got != want {
					bad("Index(%q, symbolic %q)=%d want %d", s, sep, got, want)
				}
				if got, want := cint(e.Index(e.ConcStr(s), build(sep), nil)), int64(strings.Index(s, sep)); got != want {
					bad("Index(concrete %q, symbolic %q)=%d want %d", s, sep, got, want)
				}
				if got, want := cint(e.LastIndex(ss, cs)), int64(strings.LastIndex(s, sep)); got != want {
					bad("LastIndex(%q,%q)=%d want %d", s, sep, got, want)
				}
				if got, want := cbool(e.HasPrefix(ss, cs)), strings.HasPrefix(s, sep); got != want {
					bad("HasPrefix(%q,%q)=%v", s, sep, got)
				}
				if got, want := cbool(e.HasSuffix(ss, cs)), strings.HasSuffix(s, sep); got != want {
					bad("HasSuffix(%q,%q)=%v", s, sep, got)
				}
				if got, want := cbool(e.StrEq(ss, cs)), s == sep; got != want {
					bad("Eq(%q,%q)=%v", s, sep, got)
				}
				if got, want := cbool(e.StrLt(ss, build(sep))), s < sep; got != want {
					bad("Lt(%q,%q)=%v", s, sep, got)
				}
				if len(sep) == 1 {
					isSep, rank, count := e.sepRanks(ss, sep[0])
					n := int(cint(count))
					want := strings.Split(s, sep)
					checks++
					if n != len(want)-1 {
						bad("Count(%q,%q)=%d want %d", s, sep, n, len(want)-1)
					} else {
						for i, p := range e.splitPieces(ss, isSep, rank, n) {
							if got := e.StrConcrete(p, ev); got != want[i] {
								bad("Split(%q,%q)[%d]=%q want %q", s, sep, i, got, want[i])
							}
						}
					}
				}
			}
			for _, cut := range cuts {
				checks += 3
				pred := func(b *sym.Term) *sym.Term { return e.byteIn(b, cut) }
				if got, want := e.StrConcrete(e.TrimPred(ss, pred, true, true), ev), strings.Trim(s, cut); got != want {
					bad("Trim(%q,%q)=%q want %q", s, cut, got, want)
				}
				if got, want := e.StrConcrete(e.TrimPred(ss, pred, true, false), ev), strings.TrimLeft(s, cut); got != want {
					bad("TrimLeft(%q,%q)=%q want %q", s, cut, got, want)
				}
				if got, want := e.StrConcrete(e.TrimPred(ss, pred, false, true), ev), strings.TrimRight(s, cut); got != want {
					bad("TrimRight(%q,%q)=%q want %q", s, cut, got, want)
				}
			}
			checks += 2
			if isASCII(s) {
				checks++
				if got, want := e.StrConcrete(e.escapePath(ss), ev), (&url.URL{Path: s}).EscapedPath(); got != want {
					bad("EscapedPath(%q)=%q want %q", s, got, want)
				}
			}
			if got, want := e.StrConcrete(e.mapBytes(ss, true), ev), strings.ToLower(s); got != want && isASCII(s) {
				bad("ToLower(%q)=%q", s, got)
			}
			t := corpus[rng.Intn(len(corpus))]
			if len(t) <= 24 {
				if got, want := e.StrConcrete(e.Concat(ss, build(t)), ev), s+t; got != want {
					bad("Concat(%q,%q)=%q", s, t, got)
				}
			}
			for _, pat := range patterns {
				re, err := regexp.Compile(pat)
				if err != nil {
					continue
				}
				p, err := e.rxCompile(pat)
				if err != nil || p.bad != "" || !isASCII(s) {
					continue
				}
				ok := true
				func() {
					defer func() {
						if r := recover(); r != nil {
							ok = false // unsupported feature of the pattern
						}
					}()
					checks++
					if got, want := cbool(e.rxMatch(p, ss)), re.MatchString(s); got != want {
						bad("MatchString(%q,%q)=%v want %v", pat, s, got, want)
					}
				}()
				_ = ok
			}
		}
	}
	return checks, mismatches
}

func isASCII(s string) bool {
	for i := 0; i < len(s); i++ {
		if s[i] >= 0x80 {
			return false
		}
	}
	return true
}

// SelfTestSubmatch compares the FindStringSubmatch / FindStringSubmatchIndex summaries with the real regexp
// package: for sampled (pattern, subject) pairs the piece boundaries are left to the solver (as in a real run),
// the model is read back and the groups and indices are compared.
func (e *Exec) SelfTestSubmatch(corpus []string, patterns []string, seed int64, limit int) (checks int, mismatches []string) {
	rng := rand.New(rand.NewSource(seed))
	c := e.C
	bad := func(what string, args ...interface{}) {
		if len(mismatches) < 20 {
			mismatches = append(mismatches, fmt.Sprintf(what, args...))
		}
	}
	mk := func(s string) *Str {
		cells := make([]*sym.Term, len(s)+2)
		for i := range cells {
			if i < len(s) {
				cells[i] = c.BV(uint64(s[i]), 8)
			} else {
				cells[i] = c.BV(uint64('/'), 8)
			}
		}
		return &Str{Base: &StrBase{Cells: cells, Name: "selftest"}, Off: e.i64(0), Len: e.i64(len(s)), Max: len(cells)}
	}
	var subjects []string
	for _, s := range corpus {
		if len(s) <= 12 && isASCII(s) {
			subjects = append(subjects, s)
		}
	}
	for n := 0; n < limit && len(subjects) > 0; n++ {
		pat := patterns[rng.Intn(len(patterns))]
		s := subjects[rng.Intn(len(subjects))]
		if n%3 != 0 { // bias towards matching subjects: path-like strings
			parts := []string{"/t", "/a", "/b", "/12", "/a b", "/x:go", "/", ""}
			s = parts[rng.Intn(len(parts))] + parts[rng.Intn(len(parts))] + parts[rng.Intn(len(parts))]
		}
		re, err := regexp.Compile(pat)
		if err != nil {
			continue
		}
		sh := e.rxShapeOf(pat)
		if sh.bad != "" || (!sh.anchoredEnd && !sh.anchoredStart) {
			continue
		}
		p, err := e.rxCompile(pat)
		if err != nil {
			continue
		}
		ss := mk(s)
		if !e.rxUnique(pat, sh, ss.Max) {
			continue
		}
		want := re.FindStringSubmatch(s)
		wantIdx := re.FindStringSubmatchIndex(s)
		ev0 := sym.NewEvaluator(sym.Model{})
		checks++
		if got := ev0.Eval(e.rxMatch(p, ss)) == 1; got != (want != nil) {
			bad("FindStringSubmatch(%q,%q): matched=%v want %v", pat, s, got, want != nil)
			continue
		}
		if want == nil {
			continue
		}
		start := e.i64(0)
		if !sh.anchoredStart {
			start = e.rxLeftmostStart(sh, ss)
		}
		bs := e.rxBoundaries(sh, ss, start, func(i int) *sym.Term {
			e.fresh++
			return c.Zext(c.Var(fmt.Sprintf("rxst!%d!%d", e.fresh, i), 8), 64)
		})
		e.S.Push()
		e.S.Assert(e.rxValid(sh, ss, bs))
		if e.S.Check() != smt.Sat {
			bad("FindStringSubmatch(%q,%q): no valid boundary vector although the subject matches", pat, s)
			e.S.Pop()
			continue
		}
		m, err := e.S.Model()
		e.S.Pop()
		if err != nil {
			bad("model: %v", err)
			continue
		}
		ev := sym.NewEvaluator(m)
		gotIdx := make([]int, 2*(sh.ncap+1))
		for i := range gotIdx {
			gotIdx[i] = -1
		}
		gotIdx[0], gotIdx[1] = int(int64(ev.Eval(bs[0]))), int(int64(ev.Eval(bs[len(bs)-1])))
		for i, pc := range sh.pieces {
			if pc.capture > 0 && ev.Eval(e.rxParticipates(pc, bs[i], bs[i+1])) == 1 {
				gotIdx[2*pc.capture], gotIdx[2*pc.capture+1] = int(int64(ev.Eval(bs[i]))), int(int64(ev.Eval(bs[i+1])))
			}
		}
		checks++
		if fmt.Sprint(gotIdx) != fmt.Sprint(wantIdx) {
			bad("FindStringSubmatchIndex(%q,%q)=%v want %v", pat, s, gotIdx, wantIdx)
		}
	}
	return checks, mismatches
}
