package exec

import (
	"fmt"
	"math/rand"
	"regexp"
	"strings"

	"verif/engine/sym"
)

// SelfTest evaluates the string and regex summaries by constant folding on a
// corpus and compares them with the real standard library functions. The
// strings are deliberately built as non-concrete values (constant cells on a
// base with garbage behind the end) so that the symbolic code paths run.
// It returns the mismatches found.
func (e *Exec) SelfTest(corpus []string, patterns []string, seed int64) (checks int, mismatches []string) {
	rng := rand.New(rand.NewSource(seed))
	alphabet := "ab/{}:*; ,=.qA0x\n"
	for i := 0; i < 150; i++ {
		n := rng.Intn(9)
		b := make([]byte, n)
		for j := range b {
			b[j] = alphabet[rng.Intn(len(alphabet))]
		}
		corpus = append(corpus, string(b))
	}
	ev := sym.NewEvaluator(sym.Model{})
	mk := func(s string) *Str {
		pad := 2
		cells := make([]*sym.Term, len(s)+pad)
		for i := 0; i < len(s); i++ {
			cells[i] = e.C.BV(uint64(s[i]), 8)
		}
		for i := len(s); i < len(cells); i++ {
			cells[i] = e.C.BV(uint64('/'), 8) // garbage behind the end that must never be looked at
		}
		return &Str{Base: &StrBase{Cells: cells, Name: "selftest"}, Off: e.i64(0), Len: e.i64(len(s)), Max: len(cells)}
	}
	// a view with a non-zero offset
	mkOff := func(s string) *Str {
		full := mk("xy" + s)
		return &Str{Base: full.Base, Off: e.i64(2), Len: e.i64(len(s)), Max: full.Max - 2}
	}
	bad := func(what string, args ...interface{}) {
		if len(mismatches) < 20 {
			mismatches = append(mismatches, fmt.Sprintf(what, args...))
		}
	}
	cint := func(t *sym.Term) int64 { return int64(ev.Eval(t)) }
	cbool := func(t *sym.Term) bool { return ev.Eval(t) == 1 }
	seps := []string{"/", ",", ";", "=", "//", "ab", "q=0", " "}
	cuts := []string{"/", " ", "/ ", "ab"}
	for _, s := range corpus {
		if len(s) > 24 {
			continue
		}
		for _, build := range []func(string) *Str{mk, mkOff} {
			ss := build(s)
			for _, sep := range seps {
				cs := e.ConcStr(sep)
				checks += 6
				if got, want := cint(e.Index(ss, cs, nil)), int64(strings.Index(s, sep)); got != want {
					bad("Index(%q,%q)=%d want %d", s, sep, got, want)
				}
				if got, want := cint(e.LastIndex(ss, cs)), int64(strings.LastIndex(s, sep)); got != want {
					bad("LastIndex(%q,%q)=%d want %d", s, sep, got, want)
				}
				if got, want := cbool(e.HasPrefix(ss, cs)), strings.HasPrefix(s, sep); got != want {
					bad("HasPrefix(%q,%q)=%v", s, sep, got)
				}
				if got, want := cbool(e.HasSuffix(ss, cs)), strings.HasSuffix(s, sep); got != want {
					bad("HasSuffix(%q,%q)=%v", s, sep, got)
				}
				if got, want := cbool(e.StrEq(ss, cs)), s == sep; got != want {
					bad("Eq(%q,%q)=%v", s, sep, got)
				}
				if got, want := cbool(e.StrLt(ss, build(sep))), s < sep; got != want {
					bad("Lt(%q,%q)=%v", s, sep, got)
				}
				if len(sep) == 1 {
					isSep, rank, count := e.sepRanks(ss, sep[0])
					n := int(cint(count))
					want := strings.Split(s, sep)
					checks++
					if n != len(want)-1 {
						bad("Count(%q,%q)=%d want %d", s, sep, n, len(want)-1)
					} else {
						for i, p := range e.splitPieces(ss, isSep, rank, n) {
							if got := e.StrConcrete(p, ev); got != want[i] {
								bad("Split(%q,%q)[%d]=%q want %q", s, sep, i, got, want[i])
							}
						}
					}
				}
			}
			for _, cut := range cuts {
				checks += 3
				pred := func(b *sym.Term) *sym.Term { return e.byteIn(b, cut) }
				if got, want := e.StrConcrete(e.TrimPred(ss, pred, true, true), ev), strings.Trim(s, cut); got != want {
					bad("Trim(%q,%q)=%q want %q", s, cut, got, want)
				}
				if got, want := e.StrConcrete(e.TrimPred(ss, pred, true, false), ev), strings.TrimLeft(s, cut); got != want {
					bad("TrimLeft(%q,%q)=%q want %q", s, cut, got, want)
				}
				if got, want := e.StrConcrete(e.TrimPred(ss, pred, false, true), ev), strings.TrimRight(s, cut); got != want {
					bad("TrimRight(%q,%q)=%q want %q", s, cut, got, want)
				}
			}
			checks += 2
			if got, want := e.StrConcrete(e.mapBytes(ss, true), ev), strings.ToLower(s); got != want && isASCII(s) {
				bad("ToLower(%q)=%q", s, got)
			}
			t := corpus[rng.Intn(len(corpus))]
			if len(t) <= 24 {
				if got, want := e.StrConcrete(e.Concat(ss, build(t)), ev), s+t; got != want {
					bad("Concat(%q,%q)=%q", s, t, got)
				}
			}
			for _, pat := range patterns {
				re, err := regexp.Compile(pat)
				if err != nil {
					continue
				}
				p, err := e.rxCompile(pat)
				if err != nil || p.bad != "" || !isASCII(s) {
					continue
				}
				ok := true
				func() {
					defer func() {
						if r := recover(); r != nil {
							ok = false // unsupported feature of the pattern
						}
					}()
					checks++
					if got, want := cbool(e.rxMatch(p, ss)), re.MatchString(s); got != want {
						bad("MatchString(%q,%q)=%v want %v", pat, s, got, want)
					}
				}()
				_ = ok
			}
		}
	}
	return checks, mismatches
}

func isASCII(s string) bool {
	for i := 0; i < len(s); i++ {
		if s[i] >= 0x80 {
			return false
		}
	}
	return true
}
