package exec

import (
	"fmt"
	"regexp"
	"regexp/syntax"

	"verif/engine/smt"
	"verif/engine/sym"
)

// Regular expressions: patterns are concrete, subjects may be symbolic.
// The pattern is parsed and compiled with the real regexp/syntax package and
// the resulting instruction program is unrolled over the subject (DESIGN A.5).

type rxEdge struct {
	to    int // instruction index of a consuming instruction; -1 = match
	flags syntax.EmptyOp
}

type rxProg struct {
	pattern string
	re      *syntax.Regexp
	prog    *syntax.Prog
	closure map[int][]rxEdge
	tables  map[int]*[128]bool
	bad     string // non-empty: unsupported feature
}

func (e *Exec) rxCompileNode(re *syntax.Regexp, key string) *rxProg {
	if p, ok := e.rxCache[key]; ok {
		return p
	}
	p := &rxProg{pattern: key, re: re, closure: map[int][]rxEdge{}, tables: map[int]*[128]bool{}}
	prog, err := syntax.Compile(re.Simplify())
	if err != nil {
		p.bad = err.Error()
	}
	p.prog = prog
	e.rxCache[key] = p
	return p
}

func (e *Exec) rxCompile(pattern string) (*rxProg, error) {
	if p, ok := e.rxCache["P:"+pattern]; ok {
		return p, nil
	}
	re, err := syntax.Parse(pattern, syntax.Perl)
	if err != nil {
		return nil, err
	}
	return e.rxCompileNode(re, "P:"+pattern), nil
}

func (p *rxProg) edges(pc int) []rxEdge {
	if ed, ok := p.closure[pc]; ok {
		return ed
	}
	type item struct {
		pc    int
		flags syntax.EmptyOp
	}
	seen := map[item]bool{}
	var out []rxEdge
	var walk func(pc int, flags syntax.EmptyOp)
	walk = func(pc int, flags syntax.EmptyOp) {
		it := item{pc, flags}
		if seen[it] {
			return
		}
		seen[it] = true
		in := &p.prog.Inst[pc]
		switch in.Op {
		case syntax.InstAlt, syntax.InstAltMatch:
			walk(int(in.Out), flags)
			walk(int(in.Arg), flags)
		case syntax.InstNop, syntax.InstCapture:
			walk(int(in.Out), flags)
		case syntax.InstEmptyWidth:
			walk(int(in.Out), flags|syntax.EmptyOp(in.Arg))
		case syntax.InstMatch:
			out = append(out, rxEdge{to: -1, flags: flags})
		case syntax.InstFail:
		default: // consuming
			out = append(out, rxEdge{to: pc, flags: flags})
		}
	}
	walk(pc, 0)
	p.closure[pc] = out
	return out
}

func (p *rxProg) table(pc int) *[128]bool {
	if t, ok := p.tables[pc]; ok {
		return t
	}
	t := &[128]bool{}
	in := &p.prog.Inst[pc]
	for b := 0; b < 128; b++ {
		switch in.Op {
		case syntax.InstRuneAny:
			t[b] = true
		case syntax.InstRuneAnyNotNL:
			t[b] = b != '\n'
		default:
			t[b] = in.MatchRune(rune(b))
		}
	}
	p.tables[pc] = t
	return t
}

// rxMember encodes: some match of p starts at a position allowed by seed and
// ends at a position allowed by fin, within subject s. textLen is the length
// of the whole text (for $), positions are relative to s.
//
//	seed(k): term saying a match may start at k
//	fin(k):  term saying a match may end at k
func (e *Exec) rxMember(p *rxProg, s *Str, seed func(k int) *sym.Term, fin func(k int) *sym.Term) *sym.Term {
	c := e.C
	if p.bad != "" {
		unsupportedf("regexp %q: %s", p.pattern, p.bad)
	}
	n := s.Max
	ls := e.lenOf(s)
	flagCond := func(fl syntax.EmptyOp, k int) *sym.Term {
		if fl == 0 {
			return c.True
		}
		if fl&^(syntax.EmptyBeginText|syntax.EmptyEndText) != 0 {
			unsupportedf("regexp %q uses line or word assertions", p.pattern)
		}
		conj := []*sym.Term{}
		if fl&syntax.EmptyBeginText != 0 {
			conj = append(conj, c.Bool(k == 0))
		}
		if fl&syntax.EmptyEndText != 0 {
			conj = append(conj, c.Eq(ls, e.i64(k)))
		}
		return c.And(conj...)
	}
	ninst := len(p.prog.Inst)
	act := make([]*sym.Term, ninst) // threads waiting at consuming inst, at position k
	for i := range act {
		act[i] = c.False
	}
	var matched []*sym.Term
	startEdges := p.edges(p.prog.Start)
	for k := 0; k <= n; k++ {
		// seed threads at k
		sd := seed(k)
		if !sd.IsFalse() {
			sd = c.And(sd, c.Sle(e.i64(k), ls))
			for _, ed := range startEdges {
				cond := c.And(sd, flagCond(ed.flags, k))
				if ed.to < 0 {
					matched = append(matched, c.And(cond, fin(k)))
				} else {
					act[ed.to] = c.Or(act[ed.to], cond)
				}
			}
		}
		if k == n {
			break
		}
		// consume byte k
		inb := c.Slt(e.i64(k), ls)
		b := e.at(s, k)
		next := make([]*sym.Term, ninst)
		for i := range next {
			next[i] = c.False
		}
		for pc := 0; pc < ninst; pc++ {
			if act[pc].IsFalse() {
				continue
			}
			step := c.And(act[pc], inb, e.byteInTable(b, p.table(pc)))
			if step.IsFalse() {
				continue
			}
			for _, ed := range p.edges(int(p.prog.Inst[pc].Out)) {
				cond := c.And(step, flagCond(ed.flags, k+1))
				if ed.to < 0 {
					matched = append(matched, c.And(cond, fin(k+1)))
				} else {
					next[ed.to] = c.Or(next[ed.to], cond)
				}
			}
		}
		act = next
	}
	return c.Or(matched...)
}

// rxMatch: Go's MatchString (unanchored search unless the pattern anchors).
func (e *Exec) rxMatch(p *rxProg, s *Str) *sym.Term {
	c := e.C
	return e.rxMember(p, s, func(k int) *sym.Term { return c.True }, func(k int) *sym.Term { return c.True })
}

// rxMemberRange: s[from:to] is in L(p) (anchored both sides; ^/$ inside p refer
// to the whole subject).
func (e *Exec) rxMemberRange(p *rxProg, s *Str, from, to *sym.Term) *sym.Term {
	c := e.C
	return e.rxMember(p, s,
		func(k int) *sym.Term { return c.Eq(from, e.i64(k)) },
		func(k int) *sym.Term { return c.Eq(to, e.i64(k)) })
}

// ---------------------------------------------------------------- submatch

type rxPiece struct {
	re      *syntax.Regexp
	prog    *rxProg
	capture int // capture index (>0) or 0
	fixed   int // fixed length, -1 if variable
}

type rxShape struct {
	anchoredStart bool
	anchoredEnd   bool
	pieces        []rxPiece
	ncap          int
	tailFrom      int // index of a greedy star piece that takes everything; -1 none
	bad           string
}

func fixedLen(re *syntax.Regexp) int {
	switch re.Op {
	case syntax.OpLiteral:
		return len(re.Rune)
	case syntax.OpCharClass, syntax.OpAnyChar, syntax.OpAnyCharNotNL:
		return 1
	case syntax.OpEmptyMatch:
		return 0
	case syntax.OpCapture:
		return fixedLen(re.Sub[0])
	case syntax.OpConcat:
		t := 0
		for _, s := range re.Sub {
			f := fixedLen(s)
			if f < 0 {
				return -1
			}
			t += f
		}
		return t
	}
	return -1
}

func nullable(re *syntax.Regexp) bool {
	switch re.Op {
	case syntax.OpStar, syntax.OpQuest, syntax.OpEmptyMatch:
		return true
	case syntax.OpCapture:
		return nullable(re.Sub[0])
	case syntax.OpConcat:
		for _, s := range re.Sub {
			if !nullable(s) {
				return false
			}
		}
		return true
	case syntax.OpAlternate:
		for _, s := range re.Sub {
			if nullable(s) {
				return true
			}
		}
		return false
	case syntax.OpRepeat:
		return re.Min == 0 || nullable(re.Sub[0])
	}
	return false
}

// alphabetWithin: every byte re can consume is accepted by the star body cls.
func alphabetWithin(re *syntax.Regexp, cls *syntax.Regexp) bool {
	accepts := func(r rune) bool {
		switch cls.Op {
		case syntax.OpAnyChar:
			return true
		case syntax.OpAnyCharNotNL:
			return r != '\n'
		case syntax.OpCharClass:
			for i := 0; i+1 < len(cls.Rune); i += 2 {
				if cls.Rune[i] <= r && r <= cls.Rune[i+1] {
					return true
				}
			}
		}
		return false
	}
	switch re.Op {
	case syntax.OpLiteral:
		for _, r := range re.Rune {
			if !accepts(r) {
				return false
			}
		}
		return re.Flags&syntax.FoldCase == 0
	case syntax.OpAnyChar:
		return cls.Op == syntax.OpAnyChar
	case syntax.OpAnyCharNotNL:
		return cls.Op == syntax.OpAnyChar || cls.Op == syntax.OpAnyCharNotNL
	case syntax.OpCharClass:
		for i := 0; i+1 < len(re.Rune); i += 2 {
			lo, hi := re.Rune[i], re.Rune[i+1]
			if hi > 127 {
				hi = 127
			}
			for r := lo; r <= hi; r++ {
				if !accepts(r) {
					return false
				}
			}
		}
		return true
	case syntax.OpEmptyMatch:
		return true
	case syntax.OpCapture, syntax.OpStar, syntax.OpPlus, syntax.OpQuest, syntax.OpRepeat, syntax.OpConcat, syntax.OpAlternate:
		for _, s := range re.Sub {
			if !alphabetWithin(s, cls) {
				return false
			}
		}
		return true
	}
	return false
}

func countCaptures(re *syntax.Regexp) int {
	n := 0
	if re.Op == syntax.OpCapture {
		n = 1
	}
	for _, s := range re.Sub {
		n += countCaptures(s)
	}
	return n
}

func (e *Exec) rxShapeOf(pattern string) *rxShape {
	sh := &rxShape{tailFrom: -1}
	re, err := syntax.Parse(pattern, syntax.Perl)
	if err != nil {
		sh.bad = err.Error()
		return sh
	}
	sh.ncap = re.MaxCap()
	var subs []*syntax.Regexp
	if re.Op == syntax.OpConcat {
		subs = re.Sub
	} else {
		subs = []*syntax.Regexp{re}
	}
	if len(subs) > 0 && subs[0].Op == syntax.OpBeginText {
		sh.anchoredStart = true
		subs = subs[1:]
	}
	if len(subs) > 0 && subs[len(subs)-1].Op == syntax.OpEndText {
		sh.anchoredEnd = true
		subs = subs[:len(subs)-1]
	}
	topCaps := 0
	for i, s := range subs {
		pc := rxPiece{re: s, fixed: fixedLen(s)}
		switch {
		case s.Op == syntax.OpCapture:
			pc.capture = s.Cap
			topCaps++
			if countCaptures(s) != 1 {
				sh.bad = "nested capture groups"
			}
		case s.Op == syntax.OpQuest && s.Sub[0].Op == syntax.OpCapture:
			pc.capture = s.Sub[0].Cap
			topCaps++
			if countCaptures(s) != 1 {
				sh.bad = "nested capture groups"
			}
		default:
			if countCaptures(s) != 0 {
				sh.bad = "capture group below the top level"
			}
		}
		if s.Op == syntax.OpBeginText || s.Op == syntax.OpEndText || s.Op == syntax.OpBeginLine || s.Op == syntax.OpEndLine ||
			s.Op == syntax.OpWordBoundary || s.Op == syntax.OpNoWordBoundary {
			sh.bad = "assertion in the middle of the pattern"
		}
		pc.prog = e.rxCompileNode(s, fmt.Sprintf("N:%s#%d:%s", pattern, i, s.String()))
		sh.pieces = append(sh.pieces, pc)
	}
	if topCaps != sh.ncap && sh.bad == "" {
		sh.bad = "capture groups not at top level"
	}
	// tail rule: a capture of a greedy star followed only by nullable pieces
	// whose alphabet lies within the star's class takes everything.
	if sh.anchoredEnd {
		for i, pc := range sh.pieces {
			if pc.re.Op != syntax.OpCapture {
				continue
			}
			body := pc.re.Sub[0]
			if body.Op != syntax.OpStar || body.Flags&syntax.NonGreedy != 0 {
				continue
			}
			cls := body.Sub[0]
			if cls.Op != syntax.OpAnyChar && cls.Op != syntax.OpAnyCharNotNL && cls.Op != syntax.OpCharClass {
				continue
			}
			ok := true
			for _, q := range sh.pieces[i+1:] {
				if !nullable(q.re) || !alphabetWithin(q.re, cls) {
					ok = false
					break
				}
			}
			if ok {
				sh.tailFrom = i
				break
			}
		}
	}
	return sh
}

// rxDecompose returns the validity constraint of a boundary vector for the
// pieces of sh over subject s: bs[i]..bs[i+1] delimits piece i.
func (e *Exec) rxValid(sh *rxShape, s *Str, bs []*sym.Term) *sym.Term {
	c := e.C
	conj := []*sym.Term{}
	for i, pc := range sh.pieces {
		lo, hi := bs[i], bs[i+1]
		conj = append(conj, c.Sle(lo, hi))
		if pc.fixed >= 0 {
			conj = append(conj, c.Eq(hi, c.Add(lo, e.i64(pc.fixed))))
		}
		conj = append(conj, e.rxMemberRange(pc.prog, s, lo, hi))
	}
	return c.And(conj...)
}

// boundaries builds the boundary vector: fixed-length pieces are computed,
// variable-length ones get the terms produced by fresh(i).
func (e *Exec) rxBoundaries(sh *rxShape, s *Str, start *sym.Term, fresh func(i int) *sym.Term) []*sym.Term {
	c := e.C
	n := len(sh.pieces)
	bs := make([]*sym.Term, n+1)
	bs[0] = start
	ls := e.lenOf(s)
	for i, pc := range sh.pieces {
		switch {
		case sh.tailFrom >= 0 && i >= sh.tailFrom:
			bs[i+1] = ls
		case i == n-1 && sh.anchoredEnd:
			bs[i+1] = ls
		case pc.fixed >= 0:
			bs[i+1] = c.Add(bs[i], e.i64(pc.fixed))
		default:
			bs[i+1] = fresh(i)
		}
	}
	return bs
}

// rxUnique checks (once per pattern and capacity) that a valid boundary vector
// is unique for every subject of that capacity and every start.
func (e *Exec) rxUnique(pattern string, sh *rxShape, cap int) bool {
	key := fmt.Sprintf("%s@%d", pattern, cap)
	if u, ok := e.uniqCache[key]; ok {
		return u
	}
	c := e.C
	nfresh := 0
	probe, cons := e.NewSymStr(fmt.Sprintf("rxu!%d", len(e.uniqCache)), cap)
	var start *sym.Term = e.i64(0)
	if !sh.anchoredStart {
		start = c.Zext(c.Var(fmt.Sprintf("rxu!%d!s", len(e.uniqCache)), 8), 64)
	}
	mk := func(tag string) []*sym.Term {
		return e.rxBoundaries(sh, probe, start, func(i int) *sym.Term {
			nfresh++
			return c.Zext(c.Var(fmt.Sprintf("rxu!%d!%s%d", len(e.uniqCache), tag, i), 8), 64)
		})
	}
	b1 := mk("a")
	b2 := mk("b")
	if nfresh == 0 {
		e.uniqCache[key] = true
		return true
	}
	var diff []*sym.Term
	for i := range b1 {
		diff = append(diff, c.Ne(b1[i], b2[i]))
	}
	e.S.Push()
	// this is a standalone question: it must not depend on the current path
	// condition, but asking it under the path condition is still sound for this
	// path only; so the cache is bypassed unless we are at the base level.
	for _, cn := range cons {
		e.S.Assert(cn)
	}
	e.S.Assert(e.rxValid(sh, probe, b1))
	e.S.Assert(e.rxValid(sh, probe, b2))
	e.S.Assert(c.Or(diff...))
	r := e.S.Check()
	e.S.Pop()
	u := r == smt.Unsat
	if r == smt.Unknown {
		e.Res.Inconclusive = append(e.Res.Inconclusive, "solver unknown on regexp uniqueness for "+pattern)
	}
	// Under a path condition "unsat" could be due to the path condition only if
	// it constrained the probe variables, which are fresh; so caching is sound.
	e.uniqCache[key] = u
	return u
}

type rxNative struct {
	re      *regexp.Regexp
	pattern string
}

// rxFindSubmatch models FindStringSubmatch on a symbolic subject.
func (e *Exec) rxFindSubmatch(st *State, rn *rxNative, s *Str) Outcome {
	return e.rxFindSubmatchX(st, rn, s, false)
}

// participates: whether the capture group of piece pc takes part in a match that gives it lo..hi.
// A plain group always does; an optional group "(body)?" does when it matched something, and with the empty
// string only when it is greedy and its body can match the empty string (the greedy alternative is tried first).
func (e *Exec) rxParticipates(pc rxPiece, lo, hi *sym.Term) *sym.Term {
	if pc.re.Op == syntax.OpCapture {
		return e.C.True
	}
	nonEmpty := e.C.Slt(lo, hi)
	if pc.re.Op == syntax.OpQuest && pc.re.Flags&syntax.NonGreedy == 0 && nullable(pc.re.Sub[0]) {
		return e.C.True
	}
	return nonEmpty
}

// rxFindSubmatchX models FindStringSubmatch (index=false) and FindStringSubmatchIndex (index=true).
func (e *Exec) rxFindSubmatchX(st *State, rn *rxNative, s *Str, index bool) Outcome {
	c := e.C
	p, err := e.rxCompile(rn.pattern)
	if err != nil {
		unsupportedf("regexp %q: %v", rn.pattern, err)
	}
	sh := e.rxShapeOf(rn.pattern)
	if sh.bad != "" {
		unsupportedf("FindStringSubmatch on symbolic subject: pattern %q not supported (%s)", rn.pattern, sh.bad)
	}
	if !sh.anchoredEnd && !sh.anchoredStart {
		unsupportedf("FindStringSubmatch on symbolic subject: pattern %q is not anchored", rn.pattern)
	}
	matched := e.rxMatch(p, s)
	var start *sym.Term = e.i64(0)
	if !sh.anchoredStart {
		start = e.rxLeftmostStart(sh, s)
	}
	if !e.rxUnique(rn.pattern, sh, s.Max) {
		unsupportedf("FindStringSubmatch: decomposition of %q is not unique at capacity %d", rn.pattern, s.Max)
	}
	mkResult := func(s2 *State) (Value, bool) {
		var freshVars []*sym.Term
		bs := e.rxBoundaries(sh, s, start, func(i int) *sym.Term {
			e.fresh++
			v := c.Zext(c.Var(fmt.Sprintf("rx!%d!%d", e.fresh, i), 8), 64)
			freshVars = append(freshVars, v)
			return v
		})
		if len(freshVars) > 0 {
			if !e.assume(s2, e.rxValid(sh, s, bs)) {
				e.endPath(s2, EndInfeasible)
				return nil, false
			}
		}
		if index {
			minus := e.i64(-1)
			arr := make([]Value, 2*(sh.ncap+1))
			for i := range arr {
				arr[i] = minus
			}
			arr[0], arr[1] = bs[0], bs[len(bs)-1]
			for i, pc := range sh.pieces {
				if pc.capture > 0 {
					part := e.rxParticipates(pc, bs[i], bs[i+1])
					arr[2*pc.capture] = c.Ite(part, bs[i], minus)
					arr[2*pc.capture+1] = c.Ite(part, bs[i+1], minus)
				}
			}
			p := s2.alloc(&ArrayV{E: arr}, nil, "intslice")
			return &SliceV{Arr: p, Len: len(arr), Cap: len(arr)}, true
		}
		groups := make([]*Str, sh.ncap+1)
		groups[0] = e.StrSlice(s, bs[0], bs[len(bs)-1])
		for i, pc := range sh.pieces {
			if pc.capture > 0 {
				groups[pc.capture] = e.StrSlice(s, bs[i], bs[i+1])
			}
		}
		for i := range groups {
			if groups[i] == nil {
				groups[i] = e.ConcStr("")
			}
		}
		return e.mkStringSlice(s2, groups), true
	}
	return Outcome{Kind: OutAlts, Exhaustive: true, Alts: []AltOut{
		{Cond: matched, ValFn: mkResult},
		{Cond: c.Not(matched), Val: &SliceV{}},
	}}
}

// rxLeftmostStart: for an end-anchored pattern without ^, the least k such
// that s[k:] matches the pieces.
func (e *Exec) rxLeftmostStart(sh *rxShape, s *Str) *sym.Term {
	c := e.C
	// whole = concat of pieces, anchored at both ends of s[k:]
	whole := &syntax.Regexp{Op: syntax.OpConcat}
	for _, pc := range sh.pieces {
		whole.Sub = append(whole.Sub, pc.re)
	}
	key := "W:"
	for _, pc := range sh.pieces {
		key += pc.re.String() + "|"
	}
	p := e.rxCompileNode(whole, key)
	ls := e.lenOf(s)
	res := ls
	for k := s.Max; k >= 0; k-- {
		k := k
		m := e.rxMember(p, s,
			func(j int) *sym.Term { return c.Bool(j == k) },
			func(j int) *sym.Term { return c.Eq(ls, e.i64(j)) })
		res = c.Ite(m, e.i64(k), res)
	}
	return res
}

func registerRegexp(m map[string]Intrinsic) {
	compile := func(e *Exec, st *State, pattern string) (*Native, error) {
		re, err := regexp.Compile(pattern)
		if err != nil {
			return nil, err
		}
		return &Native{V: &rxNative{re: re, pattern: pattern}}, nil
	}
	m["regexp.Compile"] = func(e *Exec, st *State, ci *CallInfo) Outcome {
		n, err := compile(e, st, mustConc(ci.Args[0], "regexp pattern"))
		if err != nil {
			return val(tuple(&Native{}, e.errorValue(st, err.Error())))
		}
		return val(tuple(n, nilIface))
	}
	m["regexp.MustCompile"] = func(e *Exec, st *State, ci *CallInfo) Outcome {
		n, err := compile(e, st, mustConc(ci.Args[0], "regexp pattern"))
		if err != nil {
			e.startPanic(st, &Iface{T: runtimeErrorType, V: e.ConcStr(err.Error())}, "regexp.MustCompile: "+err.Error())
			return handled
		}
		return val(n)
	}
	m["regexp.MatchString"] = func(e *Exec, st *State, ci *CallInfo) Outcome {
		pattern := mustConc(ci.Args[0], "regexp pattern")
		s := sArg(ci, 1)
		re, err := regexp.Compile(pattern)
		if err != nil {
			return val(tuple(e.C.False, e.errorValue(st, err.Error())))
		}
		if s.IsConc {
			return val(tuple(e.C.Bool(re.MatchString(s.Conc)), nilIface))
		}
		p, err := e.rxCompile(pattern)
		if err != nil {
			unsupportedf("regexp %q: %v", pattern, err)
		}
		return val(tuple(e.rxMatch(p, s), nilIface))
	}
	m["(*regexp.Regexp).MatchString"] = func(e *Exec, st *State, ci *CallInfo) Outcome {
		rn := ci.Args[0].(*Native).V.(*rxNative)
		s := sArg(ci, 1)
		if s.IsConc {
			return val(e.C.Bool(rn.re.MatchString(s.Conc)))
		}
		p, err := e.rxCompile(rn.pattern)
		if err != nil {
			unsupportedf("regexp %q: %v", rn.pattern, err)
		}
		return val(e.rxMatch(p, s))
	}
	m["(*regexp.Regexp).String"] = func(e *Exec, st *State, ci *CallInfo) Outcome {
		rn := ci.Args[0].(*Native).V.(*rxNative)
		return val(e.ConcStr(rn.pattern))
	}
	m["(*regexp.Regexp).NumSubexp"] = func(e *Exec, st *State, ci *CallInfo) Outcome {
		rn := ci.Args[0].(*Native).V.(*rxNative)
		return val(e.i64(rn.re.NumSubexp()))
	}
	m["(*regexp.Regexp).SubexpNames"] = func(e *Exec, st *State, ci *CallInfo) Outcome {
		rn := ci.Args[0].(*Native).V.(*rxNative)
		var out []*Str
		for _, n := range rn.re.SubexpNames() {
			out = append(out, e.ConcStr(n))
		}
		return val(e.mkStringSlice(st, out))
	}
	m["(*regexp.Regexp).LiteralPrefix"] = func(e *Exec, st *State, ci *CallInfo) Outcome {
		rn := ci.Args[0].(*Native).V.(*rxNative)
		pfx, complete := rn.re.LiteralPrefix()
		b := e.C.False
		if complete {
			b = e.C.True
		}
		return val(tuple(e.ConcStr(pfx), b))
	}
	m["(*regexp.Regexp).FindStringSubmatch"] = func(e *Exec, st *State, ci *CallInfo) Outcome {
		rn := ci.Args[0].(*Native).V.(*rxNative)
		s := sArg(ci, 1)
		if s.IsConc {
			res := rn.re.FindStringSubmatch(s.Conc)
			if res == nil {
				return val(&SliceV{})
			}
			out := make([]*Str, len(res))
			for i, r := range res {
				out[i] = e.ConcStr(r)
			}
			return val(e.mkStringSlice(st, out))
		}
		return e.rxFindSubmatch(st, rn, s)
	}
	m["(*regexp.Regexp).FindStringSubmatchIndex"] = func(e *Exec, st *State, ci *CallInfo) Outcome {
		rn := ci.Args[0].(*Native).V.(*rxNative)
		s := sArg(ci, 1)
		if s.IsConc {
			res := rn.re.FindStringSubmatchIndex(s.Conc)
			if res == nil {
				return val(&SliceV{})
			}
			arr := make([]Value, len(res))
			for i, r := range res {
				arr[i] = e.i64(r)
			}
			p := st.alloc(&ArrayV{E: arr}, nil, "intslice")
			return val(&SliceV{Arr: p, Len: len(arr), Cap: len(arr)})
		}
		return e.rxFindSubmatchX(st, rn, s, true)
	}
	m["(*regexp.Regexp).ReplaceAllString"] = func(e *Exec, st *State, ci *CallInfo) Outcome {
		rn := ci.Args[0].(*Native).V.(*rxNative)
		s := sArg(ci, 1)
		repl := mustConc(ci.Args[2], "replacement")
		if s.IsConc {
			return val(e.ConcStr(rn.re.ReplaceAllString(s.Conc, repl)))
		}
		if repl != "" {
			unsupportedf("ReplaceAllString on symbolic subject with non-empty replacement")
		}
		sh := e.rxShapeOf(rn.pattern)
		if sh.bad != "" || sh.anchoredStart || !sh.anchoredEnd {
			unsupportedf("ReplaceAllString on symbolic subject: pattern %q not supported", rn.pattern)
		}
		// end-anchored: at most one match, which reaches the end; a match of the
		// empty string at the end is impossible unless all pieces are nullable.
		allNullable := true
		for _, pc := range sh.pieces {
			if !nullable(pc.re) {
				allNullable = false
			}
		}
		if allNullable {
			unsupportedf("ReplaceAllString: pattern %q can match the empty string", rn.pattern)
		}
		p, err := e.rxCompile(rn.pattern)
		if err != nil {
			unsupportedf("regexp %q: %v", rn.pattern, err)
		}
		matched := e.rxMatch(p, s)
		start := e.rxLeftmostStart(sh, s)
		return Outcome{Kind: OutAlts, Exhaustive: true, Alts: []AltOut{
			{Cond: matched, Val: e.StrSlice(s, e.i64(0), start)},
			{Cond: e.C.Not(matched), Val: s},
		}}
	}
}
