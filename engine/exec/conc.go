package exec

import (
	"fmt"
	"go/types"
	"sort"
	"strings"

	"golang.org/x/tools/go/ssa"

	"verif/engine/smt"
	"verif/engine/sym"
)

// Event-order encoding for small thread sets (DESIGN 2.8, A.7).
//
// Each thread body registered with verifSpawn is executed alone, from the
// state at the time verifRunThreads is called, in recording mode: accesses to
// objects that existed before (shared), RWMutex operations and channel
// operations on shared channels append events; channel operations do not
// consult the channel but get symbolic results, so a thread yields several
// event paths with path conditions over those results. The analysis then
// builds, per combination of one path per thread, a formula over bit-vector
// timestamps and "executed" flags and asks the solver for
//   - a data race (two conflicting accesses adjacent in a feasible schedule),
//   - a stuck state (some thread's next event disabled, nothing can move).

type EvKind int

const (
	EvLoad EvKind = iota
	EvStore
	EvLockW
	EvUnlockW
	EvLockR
	EvUnlockR
	EvChanLen
	EvTryRecv
	EvTrySend
	EvSend
	EvRecv
)

var evNames = map[EvKind]string{EvLoad: "load", EvStore: "store", EvLockW: "Lock", EvUnlockW: "Unlock", EvLockR: "RLock", EvUnlockR: "RUnlock",
	EvChanLen: "len(ch)", EvTryRecv: "select-recv", EvTrySend: "select-send", EvSend: "send", EvRecv: "recv"}

type Event struct {
	Kind EvKind
	Loc  string    // location / lock / channel key
	Res  *sym.Term // symbolic result (len value, try-recv/try-send success)
	Pos  string
	What string
}

type Recorder struct {
	epoch  int
	events []Event
	thread int
	seq    int
}

func (r *Recorder) clone() *Recorder {
	n := *r
	n.events = append([]Event(nil), r.events...)
	return &n
}

type EventPath struct {
	Events []Event
	PC     []*sym.Term
	End    string
}

func (e *Exec) instrPos(fr *Frame, in ssa.Instruction) string {
	if in == nil || fr == nil {
		return ""
	}
	p := e.Prog.Fset.Position(in.Pos())
	if !p.IsValid() {
		return fr.fn.Name()
	}
	f := p.Filename
	if i := strings.LastIndex(f, "/"); i >= 0 {
		f = f[i+1:]
	}
	return fmt.Sprintf("%s:%d", f, p.Line)
}

func (e *Exec) isShared(st *State, obj int) bool {
	return st.rec != nil && obj >= 0 && obj < len(st.heap) && st.heap[obj].Epoch < st.rec.epoch
}

// recAccess records a load/store of a shared location.
func (e *Exec) recAccess(st *State, p *Ptr, store bool, fr *Frame, in ssa.Instruction) {
	if st.rec == nil || p == nil || p.IsNil() || !e.isShared(st, p.Obj) {
		return
	}
	k := EvLoad
	if store {
		k = EvStore
	}
	what := st.heap[p.Obj].Site
	st.rec.events = append(st.rec.events, Event{Kind: k, Loc: p.key(), Pos: e.instrPos(fr, in), What: what})
}

func (e *Exec) recLock(st *State, kind EvKind, key string) {
	if st.rec == nil {
		return
	}
	pos := ""
	if len(st.frames) > 1 {
		fr := st.frames[len(st.frames)-1]
		if fr.idx < len(fr.block.Instrs) {
			pos = e.instrPos(fr, fr.block.Instrs[fr.idx])
		}
	}
	st.rec.events = append(st.rec.events, Event{Kind: kind, Loc: key, Pos: pos})
}

func (e *Exec) sharedChan(st *State, ch *ChanRef) bool {
	return st.rec != nil && ch.Obj >= 0 && e.isShared(st, ch.Obj)
}

func (e *Exec) recChan(st *State, kind EvKind, ch *ChanRef, res *sym.Term, pos string) {
	st.rec.events = append(st.rec.events, Event{Kind: kind, Loc: fmt.Sprintf("chan%d", ch.Obj), Res: res, Pos: pos})
}

// pooledObject stands for "some object taken out of a shared channel".
func (e *Exec) pooledObject(st *State, elemT types.Type) Value {
	if pt, ok := elemT.Underlying().(*types.Pointer); ok {
		name := pt.Elem().String()
		kind := ""
		switch name {
		case "compress/gzip.Writer":
			kind = "gzip.Writer"
		case "compress/zlib.Writer":
			kind = "zlib.Writer"
		case "compress/gzip.Reader":
			kind = "gzip.Reader"
		}
		if kind != "" {
			id := e.codecSeq(st, "compressor")
			return e.newModel(st, kind, map[string]Value{"dest": nilIface, "open": e.C.False, "closed": e.C.False,
				"payload": &TupleV{}, "id": e.i64(id), "streams": e.i64(0), "src": nilIface})
		}
	}
	return e.zero(elemT)
}

func (e *Exec) freshVar(prefix string, w int) *sym.Term {
	e.fresh++
	return e.C.Var(fmt.Sprintf("%s!%d", prefix, e.fresh), w)
}

// ---------------------------------------------------------------- running threads

type threadResult struct {
	paths []EventPath
}

// runThreads executes every registered thread body alone in recording mode.
func (e *Exec) runThreads(st *State, bodies []*Closure) []threadResult {
	out := make([]threadResult, len(bodies))
	for ti, body := range bodies {
		s2 := st.Clone()
		s2.epoch++
		s2.rec = &Recorder{epoch: s2.epoch, thread: ti}
		s2.frames = []*Frame{e.newFrame(body.Fn, nil, body.Bind)}
		s2.done = false
		delete(s2.extra, "__end")
		var paths []EventPath
		saved := e.onThreadEnd
		e.onThreadEnd = func(ps *State, end string) {
			paths = append(paths, EventPath{Events: append([]Event(nil), ps.rec.events...), PC: append([]*sym.Term(nil), ps.PC[len(st.PC):]...), End: end})
		}
		base := e.S.Level()
		e.S.Push()
		e.explore(s2, s2.Forks)
		e.S.PopTo(base)
		e.onThreadEnd = saved
		out[ti] = threadResult{paths: paths}
	}
	return out
}

// ---------------------------------------------------------------- analysis

type concEvent struct {
	Event
	thread int
	idx    int
	ts     *sym.Term // BV8
	ex     *sym.Term // Bool: executed
}

func locConflict(a, b string) bool {
	if a == b {
		return true
	}
	return strings.HasPrefix(a, b+".") || strings.HasPrefix(b, a+".")
}

type ConcFinding struct {
	Kind     string // "race", "stuck"
	Desc     string
	Schedule []string
}

type lockSection struct {
	acq, rel *concEvent
	write    bool
}

// lockSecsOf pairs the lock/unlock events of one thread.
func lockSecsOf(te []*concEvent) []lockSection {
	var out []lockSection
	open := map[string][]*concEvent{}
	for _, ev := range te {
		switch ev.Kind {
		case EvLockW, EvLockR:
			open[ev.Loc] = append(open[ev.Loc], ev)
		case EvUnlockW, EvUnlockR:
			if o := open[ev.Loc]; len(o) > 0 {
				a := o[len(o)-1]
				open[ev.Loc] = o[:len(o)-1]
				out = append(out, lockSection{acq: a, rel: ev, write: a.Kind == EvLockW})
			}
		}
	}
	for _, o := range open {
		for _, a := range o {
			out = append(out, lockSection{acq: a, write: a.Kind == EvLockW})
		}
	}
	return out
}

// analyseThreads runs the race and stuck-state queries over all combinations
// of event paths. chanInfo gives capacity and initial length per channel key.
func (e *Exec) analyseThreads(st *State, trs []threadResult, wantRace, wantStuck bool) []ConcFinding {
	var findings []ConcFinding
	seenDesc := map[string]bool{}
	// enumerate combinations
	idx := make([]int, len(trs))
	combos := 0
	for {
		combo := make([]EventPath, len(trs))
		ok := true
		for t := range trs {
			if len(trs[t].paths) == 0 {
				ok = false
				break
			}
			combo[t] = trs[t].paths[idx[t]]
		}
		if !ok {
			break
		}
		combos++
		for _, f := range e.analyseCombo(st, combo, wantRace, wantStuck) {
			if !seenDesc[f.Kind+f.Desc] {
				seenDesc[f.Kind+f.Desc] = true
				findings = append(findings, f)
			}
		}
		// next combination
		k := len(idx) - 1
		for k >= 0 {
			idx[k]++
			if idx[k] < len(trs[k].paths) {
				break
			}
			idx[k] = 0
			k--
		}
		if k < 0 || combos > 400 {
			if combos > 400 {
				e.Res.Inconclusive = append(e.Res.Inconclusive, "more than 400 combinations of thread paths")
			}
			break
		}
	}
	e.Res.Notes["thread-path combinations analysed"] += combos
	return findings
}

func (e *Exec) analyseCombo(st *State, combo []EventPath, wantRace, wantStuck bool) []ConcFinding {
	c := e.C
	var findings []ConcFinding
	// 1. relevant events: locks, channels, and accesses to locations touched by
	//    two threads with at least one store
	type acc struct {
		threads map[int]bool
		store   map[int]bool
	}
	locs := map[string]*acc{}
	for t, p := range combo {
		for _, ev := range p.Events {
			if ev.Kind == EvLoad || ev.Kind == EvStore {
				a := locs[ev.Loc]
				if a == nil {
					a = &acc{threads: map[int]bool{}, store: map[int]bool{}}
					locs[ev.Loc] = a
				}
				a.threads[t] = true
				if ev.Kind == EvStore {
					a.store[t] = true
				}
			}
		}
	}
	// conflict if some other thread stores to an overlapping location
	var storeLocs []string
	storeBy := map[string]map[int]bool{}
	for l, a := range locs {
		if len(a.store) > 0 {
			storeLocs = append(storeLocs, l)
			storeBy[l] = a.store
		}
	}
	sort.Strings(storeLocs)
	relevant := func(t int, ev Event) bool {
		if ev.Kind != EvLoad && ev.Kind != EvStore {
			return true
		}
		for _, l := range storeLocs {
			if !locConflict(l, ev.Loc) {
				continue
			}
			for ot := range storeBy[l] {
				if ot != t {
					return true
				}
			}
			if ev.Kind == EvStore {
				// our store vs another thread's load
				for ot := range locs[l].threads {
					if ot != t {
						return true
					}
				}
			}
		}
		return false
	}
	e.fresh++
	tag := e.fresh
	var evs []*concEvent
	perThread := make([][]*concEvent, len(combo))
	for t, p := range combo {
		lastKey := ""
		for _, ev := range p.Events {
			if !relevant(t, ev) {
				continue
			}
			// collapse immediately repeated identical accesses
			key := fmt.Sprintf("%d|%s|%s", ev.Kind, ev.Loc, ev.Pos)
			if (ev.Kind == EvLoad || ev.Kind == EvStore) && key == lastKey {
				continue
			}
			lastKey = key
			ce := &concEvent{Event: ev, thread: t, idx: len(perThread[t])}
			ce.ts = c.Var(fmt.Sprintf("ts!%d!%d!%d", tag, t, ce.idx), 8)
			ce.ex = c.Var(fmt.Sprintf("ex!%d!%d!%d", tag, t, ce.idx), 0)
			perThread[t] = append(perThread[t], ce)
			evs = append(evs, ce)
		}
	}
	if len(evs) > 200 {
		e.Res.Inconclusive = append(e.Res.Inconclusive, fmt.Sprintf("%d relevant events in one combination (limit 200)", len(evs)))
		return nil
	}
	e.Res.Notes["events in schedules"] += len(evs)
	var base []*sym.Term
	// path conditions of the chosen paths
	for _, p := range combo {
		base = append(base, p.PC...)
	}
	// program order, prefix-closed execution, distinct timestamps
	for _, te := range perThread {
		for i := 1; i < len(te); i++ {
			base = append(base, c.Ult(te[i-1].ts, te[i].ts))
			base = append(base, c.Implies(te[i].ex, te[i-1].ex))
		}
	}
	for i := 0; i < len(evs); i++ {
		for j := i + 1; j < len(evs); j++ {
			if evs[i].thread != evs[j].thread {
				base = append(base, c.Ne(evs[i].ts, evs[j].ts))
			}
		}
	}
	before := func(a, b *concEvent) *sym.Term { // a executed and before b
		return c.And(a.ex, c.Ult(a.ts, b.ts))
	}
	one8 := func(b *sym.Term) *sym.Term { return c.Ite(b, c.BV(1, 8), c.BV(0, 8)) }
	// ---- locks: sections
	type section struct {
		acq, rel *concEvent
		write    bool
		thread   int
	}
	lockSecs := map[string][]section{}
	for t, te := range perThread {
		open := map[string][]*concEvent{}
		for _, ev := range te {
			switch ev.Kind {
			case EvLockW, EvLockR:
				open[ev.Loc] = append(open[ev.Loc], ev)
			case EvUnlockW, EvUnlockR:
				o := open[ev.Loc]
				if len(o) > 0 {
					a := o[len(o)-1]
					open[ev.Loc] = o[:len(o)-1]
					lockSecs[ev.Loc] = append(lockSecs[ev.Loc], section{acq: a, rel: ev, write: a.Kind == EvLockW, thread: t})
				}
			}
		}
		for l, o := range open {
			for _, a := range o {
				lockSecs[l] = append(lockSecs[l], section{acq: a, rel: nil, write: a.Kind == EvLockW, thread: t})
			}
		}
	}
	// held(s, at): section s is held at the time of event `at`
	heldAt := func(s section, at *concEvent) *sym.Term {
		h := before(s.acq, at)
		if s.rel != nil {
			h = c.And(h, c.Not(before(s.rel, at)))
		}
		return h
	}
	// an executed acquire needs the lock to be available at its time
	for l, secs := range lockSecs {
		_ = l
		for i, s := range secs {
			for j, o := range secs {
				if i == j || s.thread == o.thread {
					continue
				}
				if s.write || o.write {
					base = append(base, c.Implies(s.acq.ex, c.Not(heldAt(o, s.acq))))
				}
			}
		}
	}
	// ---- channels
	type chanMeta struct {
		cap, init int
	}
	chans := map[string]chanMeta{}
	for _, ev := range evs {
		switch ev.Kind {
		case EvChanLen, EvTryRecv, EvTrySend, EvSend, EvRecv:
			if _, ok := chans[ev.Loc]; !ok {
				var obj int
				fmt.Sscanf(ev.Loc, "chan%d", &obj)
				cv := st.heap[obj].V.(*ChanV)
				chans[ev.Loc] = chanMeta{cap: cv.Cap, init: len(cv.Q)}
			}
		}
	}
	sendOK := func(ev *concEvent) *sym.Term { // this event put an element into the channel
		switch ev.Kind {
		case EvSend:
			return ev.ex
		case EvTrySend:
			return c.And(ev.ex, ev.Res)
		}
		return c.False
	}
	recvOK := func(ev *concEvent) *sym.Term {
		switch ev.Kind {
		case EvRecv:
			return ev.ex
		case EvTryRecv:
			return c.And(ev.ex, ev.Res)
		}
		return c.False
	}
	countBefore := func(ch string, at *concEvent) *sym.Term {
		n := c.BV(uint64(chans[ch].init), 8)
		for _, o := range evs {
			if o == at || o.Loc != ch {
				continue
			}
			n = c.Add(n, one8(c.And(sendOK(o), c.Ult(o.ts, at.ts))))
			n = c.Sub(n, one8(c.And(recvOK(o), c.Ult(o.ts, at.ts))))
		}
		return n
	}
	finalCount := func(ch string) *sym.Term {
		n := c.BV(uint64(chans[ch].init), 8)
		for _, o := range evs {
			if o.Loc != ch {
				continue
			}
			n = c.Add(n, one8(sendOK(o)))
			n = c.Sub(n, one8(recvOK(o)))
		}
		return n
	}
	for _, ev := range evs {
		meta, isChan := chans[ev.Loc]
		if !isChan {
			continue
		}
		cnt := countBefore(ev.Loc, ev)
		capT := c.BV(uint64(meta.cap), 8)
		switch ev.Kind {
		case EvChanLen:
			base = append(base, c.Implies(ev.ex, c.Eq(ev.Res, c.Zext(cnt, 64))))
		case EvTryRecv:
			base = append(base, c.Implies(ev.ex, c.Eq(ev.Res, c.Ugt(cnt, c.BV(0, 8)))))
		case EvTrySend:
			base = append(base, c.Implies(ev.ex, c.Eq(ev.Res, c.Ult(cnt, capT))))
		case EvSend:
			base = append(base, c.Implies(ev.ex, c.Ult(cnt, capT)))
		case EvRecv:
			base = append(base, c.Implies(ev.ex, c.Ugt(cnt, c.BV(0, 8))))
		}
	}
	describe := func(m sym.Model) []string {
		ev := sym.NewEvaluator(m)
		type row struct {
			ts   uint64
			text string
		}
		var rows []row
		for _, x := range evs {
			if ev.Eval(x.ex) != 1 {
				continue
			}
			res := ""
			if x.Res != nil {
				res = fmt.Sprintf(" -> %d", int64(ev.Eval(x.Res)))
			}
			rows = append(rows, row{ev.Eval(x.ts), fmt.Sprintf("T%d %s %s @%s%s", x.thread, evNames[x.Kind], x.Loc, x.Pos, res)})
		}
		sort.Slice(rows, func(i, j int) bool { return rows[i].ts < rows[j].ts })
		var out []string
		for _, r := range rows {
			out = append(out, r.text)
		}
		return out
	}
	ask := func(extra []*sym.Term) (smt.Result, sym.Model) {
		e.S.Push()
		for _, b := range base {
			e.S.Assert(b)
		}
		for _, x := range extra {
			e.S.Assert(x)
		}
		r := e.S.Check()
		var m sym.Model
		if r == smt.Sat {
			m, _ = e.S.Model()
		}
		if r == smt.Unknown {
			e.Res.Inconclusive = append(e.Res.Inconclusive, "solver unknown on a schedule query")
		}
		e.S.Pop()
		e.Res.Obligations++
		if r == smt.Unsat {
			e.Res.Discharged++
		}
		return r, m
	}
	// ---- snapshot structure (no solver needed): all loads by one thread of a location that
	// another thread stores under a write lock lie inside ONE read/write section of that lock,
	// so that the thread works on a single registration state
	if wantRace {
		for _, l := range storeLocs {
			for u := range storeBy[l] {
				// locks the storing thread holds in write mode around its store
				wlocks := map[string]bool{}
				for _, sec := range lockSecsOf(perThread[u]) {
					if !sec.write {
						continue
					}
					for _, ev := range perThread[u] {
						if ev.Kind == EvStore && locConflict(ev.Loc, l) && ev.idx > sec.acq.idx && (sec.rel == nil || ev.idx < sec.rel.idx) {
							wlocks[sec.acq.Loc] = true
						}
					}
				}
				for t, te := range perThread {
					if t == u {
						continue
					}
					for lock := range wlocks {
						secIdx := map[int]bool{}
						for _, ev := range te {
							if (ev.Kind != EvLoad && ev.Kind != EvStore) || !locConflict(ev.Loc, l) {
								continue
							}
							for si, sec := range lockSecsOf(te) {
								if sec.acq.Loc == lock && ev.idx > sec.acq.idx && (sec.rel == nil || ev.idx < sec.rel.idx) {
									secIdx[si] = true
								}
							}
						}
						if len(secIdx) > 1 {
							// informational only: reading a location in two critical sections is not by itself
							// observable (the OPTIONS filter re-reads the service list after routing, but its answer
							// uses the second read only); reporting it would demand more than C12 states
							e.Res.Notes[fmt.Sprintf("snapshot structure: a thread reads a location stored under %s in %d separate critical sections", lock, len(secIdx))]++
						} else if len(secIdx) == 1 {
							e.Res.Notes["snapshot structure: all reads of a mutated location lie in one critical section"]++
						}
					}
				}
			}
		}
	}
	// ---- data races: conflicting accesses adjacent in some schedule
	if wantRace {
		type pairKey struct{ a, b string }
		asked := map[pairKey]bool{}
		for _, x := range evs {
			if x.Kind != EvStore {
				continue
			}
			for _, y := range evs {
				if y.thread == x.thread || (y.Kind != EvLoad && y.Kind != EvStore) || !locConflict(x.Loc, y.Loc) {
					continue
				}
				pk := pairKey{x.Pos + evNames[x.Kind] + x.Loc, y.Pos + evNames[y.Kind] + y.Loc}
				if asked[pk] {
					continue
				}
				asked[pk] = true
				// everything up to both executed; adjacent: no event strictly between them
				extra := []*sym.Term{x.ex, y.ex}
				lo := c.Ite(c.Ult(x.ts, y.ts), x.ts, y.ts)
				hi := c.Ite(c.Ult(x.ts, y.ts), y.ts, x.ts)
				for _, z := range evs {
					if z == x || z == y {
						continue
					}
					extra = append(extra, c.Not(c.And(z.ex, c.And(c.Ult(lo, z.ts), c.Ult(z.ts, hi)))))
				}
				r, m := ask(extra)
				if r == smt.Sat {
					desc := fmt.Sprintf("data race: %s of %s at %s (T%d) and %s at %s (T%d) are not ordered by any lock", evNames[x.Kind], x.What, x.Pos, x.thread, evNames[y.Kind], y.Pos, y.thread)
					findings = append(findings, ConcFinding{Kind: "race", Desc: desc, Schedule: describe(m)})
				}
			}
		}
	}
	// ---- stuck states: every thread finished or its next event is disabled; some thread not finished
	if wantStuck {
		var extra []*sym.Term
		var someBlocked []*sym.Term
		for t, te := range perThread {
			if len(te) == 0 {
				continue
			}
			// next event of thread t: first non-executed
			var blockedHere []*sym.Term
			for i, ev := range te {
				isNext := c.Not(ev.ex)
				if i > 0 {
					isNext = c.And(isNext, te[i-1].ex)
				}
				var disabled *sym.Term = c.False
				switch ev.Kind {
				case EvSend:
					disabled = c.Uge(finalCount(ev.Loc), c.BV(uint64(chans[ev.Loc].cap), 8))
				case EvRecv:
					disabled = c.Eq(finalCount(ev.Loc), c.BV(0, 8))
				case EvLockW, EvLockR:
					// disabled if a conflicting section of another thread is held at the end
					var held []*sym.Term
					for _, s := range lockSecs[ev.Loc] {
						if s.thread == t {
							continue
						}
						if ev.Kind == EvLockR && !s.write {
							continue
						}
						h := s.acq.ex
						if s.rel != nil {
							h = c.And(h, c.Not(s.rel.ex))
						}
						held = append(held, h)
					}
					if ev.Kind == EvLockR {
						// Go's RWMutex: a pending writer blocks new readers
						for ot, ote := range perThread {
							if ot == t {
								continue
							}
							for k, w := range ote {
								if w.Kind == EvLockW && w.Loc == ev.Loc {
									pending := c.Not(w.ex)
									if k > 0 {
										pending = c.And(pending, ote[k-1].ex)
									}
									held = append(held, pending)
								}
							}
						}
					}
					disabled = c.Or(held...)
				}
				// a next event that is not disabled would contradict "stuck"
				extra = append(extra, c.Implies(isNext, disabled))
				blockedHere = append(blockedHere, c.And(isNext, disabled))
			}
			someBlocked = append(someBlocked, c.Or(blockedHere...))
		}
		extra = append(extra, c.Or(someBlocked...))
		r, m := ask(extra)
		if r == smt.Sat {
			ev := sym.NewEvaluator(m)
			var who []string
			for t, te := range perThread {
				for i, x := range te {
					if ev.Eval(x.ex) == 0 && (i == 0 || ev.Eval(te[i-1].ex) == 1) {
						who = append(who, fmt.Sprintf("T%d blocked forever in %s %s at %s", t, evNames[x.Kind], x.Loc, x.Pos))
						break
					}
				}
			}
			sort.Strings(who)
			findings = append(findings, ConcFinding{Kind: "stuck", Desc: strings.Join(who, "; "), Schedule: describe(m)})
		}
	}
	return findings
}
