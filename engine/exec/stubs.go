package exec

import (
	"fmt"
	"go/types"
	"sort"
	"strings"

	"verif/engine/sym"
)

// Environment stubs (DESIGN 2.5). Every stub that runs is reported in evidence.

func (e *Exec) namedType(pkg, name string) types.Type {
	p := e.Prog.ImportedPackage(pkg)
	if p == nil {
		unsupportedf("package %s not loaded", pkg)
	}
	t := p.Type(name)
	if t == nil {
		unsupportedf("type %s.%s not found", pkg, name)
	}
	return t.Type()
}

func (e *Exec) newModel(st *State, kind string, f map[string]Value) *Ptr {
	if f == nil {
		f = map[string]Value{}
	}
	return st.alloc(&ModelV{Kind: kind, F: f}, nil, "model "+kind)
}

func (e *Exec) model(st *State, v Value, kind string) (*Ptr, *ModelV) {
	p, ok := v.(*Ptr)
	if !ok || p.IsNil() {
		unsupportedf("model object %s expected, got %s", kind, describe(v))
	}
	m, ok := st.heap[p.Obj].V.(*ModelV)
	if !ok || (kind != "" && m.Kind != kind) {
		unsupportedf("model object %s expected, got %T", kind, st.heap[p.Obj].V)
	}
	return p, m
}

func (e *Exec) extraInt(st *State, key string) int {
	if v, ok := st.extra[key]; ok {
		cv, _ := v.(*sym.Term).ConstVal()
		return int(int64(cv))
	}
	return 0
}

func (e *Exec) deadlock(st *State, what string) Outcome {
	st.mayFail = true
	e.Res.Violations = append(e.Res.Violations, Violation{Msg: "deadlock: " + what, Inputs: e.InputsUnder(st, e.pathModel(st)), PathTag: strings.Join(st.Tags, ",")})
	e.endPath(st, "deadlock")
	return handled
}

func noop(e *Exec, st *State, ci *CallInfo) Outcome { return val(nil) }

func registerStubs(m map[string]Intrinsic) {
	// ---- logging: output is not observable
	for _, n := range []string{"Print", "Printf"} {
		m["github.com/emicklei/go-restful/v3/log."+n] = noop
		m["(*log.Logger)."+n] = noop
	}
	m["(*log.Logger).Println"] = noop
	m["(*log.Logger).Output"] = func(e *Exec, st *State, ci *CallInfo) Outcome { return val(nilIface) }
	m["log.New"] = func(e *Exec, st *State, ci *CallInfo) Outcome { return val(e.newModel(st, "logger", nil)) }
	m["log.Printf"] = noop
	m["log.Print"] = noop
	m["log.Println"] = noop
	m["os.Exit"] = func(e *Exec, st *State, ci *CallInfo) Outcome {
		e.endPath(st, EndExit)
		return handled
	}
	// ---- runtime / reflect: only feed log text and Operation names
	m["runtime.Caller"] = func(e *Exec, st *State, ci *CallInfo) Outcome {
		return val(tuple(e.C.BV(0, 64), e.ConcStr(""), e.i64(0), e.C.False))
	}
	m["runtime.FuncForPC"] = func(e *Exec, st *State, ci *CallInfo) Outcome { return val(nilPtr) }
	m["(*runtime.Func).Name"] = func(e *Exec, st *State, ci *CallInfo) Outcome { return val(e.ConcStr("")) }
	m["reflect.ValueOf"] = func(e *Exec, st *State, ci *CallInfo) Outcome {
		return val(&StructV{F: []Value{nilPtr, nilPtr, e.C.BV(0, 64)}})
	}
	m["(reflect.Value).Pointer"] = func(e *Exec, st *State, ci *CallInfo) Outcome { return val(e.C.BV(0, 64)) }
	m["reflect.TypeOf"] = func(e *Exec, st *State, ci *CallInfo) Outcome { return val(nilIface) }
	// ---- sync
	m["(*sync.RWMutex).Lock"] = func(e *Exec, st *State, ci *CallInfo) Outcome {
		k := ci.Args[0].(*Ptr).key()
		if st.sched != nil {
			return e.schedAcquire(st, ci, "rw:"+k, true)
		}
		if e.extraInt(st, "rw:w:"+k) != 0 || e.extraInt(st, "rw:r:"+k) != 0 {
			return e.deadlock(st, "RWMutex.Lock while the lock is held by the same goroutine")
		}
		st.extra["rw:w:"+k] = e.i64(1)
		e.recLock(st, EvLockW, "rw:"+k)
		return val(nil)
	}
	m["(*sync.RWMutex).Unlock"] = func(e *Exec, st *State, ci *CallInfo) Outcome {
		k := ci.Args[0].(*Ptr).key()
		if st.sched != nil {
			if !e.schedRelease(st, "rw:"+k, true) {
				e.startPanic(st, &Iface{T: runtimeErrorType, V: e.ConcStr("sync: Unlock of unlocked RWMutex")}, "fatal error: sync: Unlock of unlocked RWMutex")
				return handled
			}
			return val(nil)
		}
		if e.extraInt(st, "rw:w:"+k) == 0 {
			e.startPanic(st, &Iface{T: runtimeErrorType, V: e.ConcStr("sync: Unlock of unlocked RWMutex")}, "fatal error: sync: Unlock of unlocked RWMutex")
			return handled
		}
		st.extra["rw:w:"+k] = e.i64(0)
		e.recLock(st, EvUnlockW, "rw:"+k)
		return val(nil)
	}
	m["(*sync.RWMutex).RLock"] = func(e *Exec, st *State, ci *CallInfo) Outcome {
		k := ci.Args[0].(*Ptr).key()
		if st.sched != nil {
			return e.schedAcquire(st, ci, "rw:"+k, false)
		}
		if e.extraInt(st, "rw:w:"+k) != 0 {
			return e.deadlock(st, "RWMutex.RLock while write-locked by the same goroutine")
		}
		st.extra["rw:r:"+k] = e.i64(e.extraInt(st, "rw:r:"+k) + 1)
		e.recLock(st, EvLockR, "rw:"+k)
		return val(nil)
	}
	m["(*sync.RWMutex).RUnlock"] = func(e *Exec, st *State, ci *CallInfo) Outcome {
		k := ci.Args[0].(*Ptr).key()
		if st.sched != nil {
			if !e.schedRelease(st, "rw:"+k, false) {
				e.startPanic(st, &Iface{T: runtimeErrorType, V: e.ConcStr("sync: RUnlock of unlocked RWMutex")}, "fatal error: sync: RUnlock of unlocked RWMutex")
				return handled
			}
			return val(nil)
		}
		if e.extraInt(st, "rw:r:"+k) == 0 {
			e.startPanic(st, &Iface{T: runtimeErrorType, V: e.ConcStr("sync: RUnlock of unlocked RWMutex")}, "fatal error: sync: RUnlock of unlocked RWMutex")
			return handled
		}
		st.extra["rw:r:"+k] = e.i64(e.extraInt(st, "rw:r:"+k) - 1)
		e.recLock(st, EvUnlockR, "rw:"+k)
		return val(nil)
	}
	m["(*sync.Mutex).Lock"] = func(e *Exec, st *State, ci *CallInfo) Outcome {
		k := ci.Args[0].(*Ptr).key()
		if st.sched != nil {
			return e.schedAcquire(st, ci, "mu:"+k, true)
		}
		if e.extraInt(st, "mu:"+k) != 0 {
			return e.deadlock(st, "Mutex.Lock while held by the same goroutine")
		}
		st.extra["mu:"+k] = e.i64(1)
		e.recLock(st, EvLockW, "mu:"+k)
		return val(nil)
	}
	m["(*sync.Mutex).Unlock"] = func(e *Exec, st *State, ci *CallInfo) Outcome {
		k := ci.Args[0].(*Ptr).key()
		if st.sched != nil {
			e.schedRelease(st, "mu:"+k, true)
			return val(nil)
		}
		st.extra["mu:"+k] = e.i64(0)
		e.recLock(st, EvUnlockW, "mu:"+k)
		return val(nil)
	}
	m["(*sync.Pool).Get"] = func(e *Exec, st *State, ci *CallInfo) Outcome {
		p := ci.Args[0].(*Ptr)
		k := "pool:" + p.key()
		// while a thread is recorded alone, an object that was in the pool beforehand must not be handed to every
		// thread (a real pool gives it to one of them): the thread gets a new object instead
		if v, ok := st.extra[k]; ok && st.rec == nil {
			items := v.(*TupleV).E
			if len(items) > 0 {
				st.extra[k] = &TupleV{E: append([]Value{}, items[:len(items)-1]...)}
				return val(items[len(items)-1])
			}
		}
		// New is the last field of sync.Pool
		pool := st.load(p).(*StructV)
		newFn := pool.F[len(pool.F)-1].(*Closure)
		if newFn.Fn == nil {
			return val(nilIface)
		}
		return Outcome{Kind: OutTail, Tail: newFn}
	}
	m["(*sync.Pool).Put"] = func(e *Exec, st *State, ci *CallInfo) Outcome {
		p := ci.Args[0].(*Ptr)
		k := "pool:" + p.key()
		var items []Value
		if v, ok := st.extra[k]; ok {
			items = v.(*TupleV).E
		}
		st.extra[k] = &TupleV{E: append(append([]Value{}, items...), ci.Args[1])}
		return val(nil)
	}
	// sync.Map with concrete keys: an association list kept beside the object
	smKey := func(ci *CallInfo) string { return "syncmap:" + ci.Args[0].(*Ptr).key() }
	smGet := func(st *State, k string) []Value {
		if t, ok := st.extra[k].(*TupleV); ok {
			return t.E
		}
		return nil
	}
	// smAlts forks over which stored key equals the given one (stored keys are pairwise different): one alternative
	// per entry whose equality with the key is not refuted, plus the miss. Concrete keys give a single alternative.
	smAlts := func(e *Exec, items []Value, key Value, hit func(st *State, i int) (Value, bool), miss func(st *State) (Value, bool)) Outcome {
		var alts []AltOut
		none := e.C.True
		for i := 0; i+1 < len(items); i += 2 {
			i := i
			eq := e.valuesEqual(items[i], key)
			if eq.IsFalse() {
				continue
			}
			alts = append(alts, AltOut{Cond: e.C.And(none, eq), ValFn: func(s2 *State) (Value, bool) { return hit(s2, i) }})
			if eq.IsTrue() {
				none = e.C.False
				break
			}
			none = e.C.And(none, e.C.Not(eq))
		}
		if !none.IsFalse() {
			alts = append(alts, AltOut{Cond: none, ValFn: miss})
		}
		return Outcome{Kind: OutAlts, Exhaustive: true, Alts: alts}
	}
	smStoreMon := func(e *Exec, st *State, ci *CallInfo) {
		if st.frameMon != nil && st.heap[ci.Args[0].(*Ptr).Obj].Epoch < st.frameMon.epoch {
			st.mayFail = true
			e.Res.Violations = append(e.Res.Violations, Violation{Msg: "frame[" + st.frameMon.label + "]: store into a pre-existing sync.Map", Inputs: e.InputsUnder(st, e.pathModel(st))})
		}
	}
	m["(*sync.Map).Load"] = func(e *Exec, st *State, ci *CallInfo) Outcome {
		items := smGet(st, smKey(ci))
		return smAlts(e, items, ci.Args[1],
			func(s2 *State, i int) (Value, bool) { return tuple(items[i+1], e.C.True), true },
			func(s2 *State) (Value, bool) { return tuple(nilIface, e.C.False), true })
	}
	m["(*sync.Map).Store"] = func(e *Exec, st *State, ci *CallInfo) Outcome {
		k := smKey(ci)
		items := smGet(st, k)
		return smAlts(e, items, ci.Args[1],
			func(s2 *State, i int) (Value, bool) {
				n := append([]Value{}, items...)
				n[i+1] = ci.Args[2]
				s2.extra[k] = &TupleV{E: n}
				smStoreMon(e, s2, ci)
				return nil, true
			},
			func(s2 *State) (Value, bool) {
				s2.extra[k] = &TupleV{E: append(append([]Value{}, items...), ci.Args[1], ci.Args[2])}
				smStoreMon(e, s2, ci)
				return nil, true
			})
	}
	m["(*sync.Map).LoadOrStore"] = func(e *Exec, st *State, ci *CallInfo) Outcome {
		k := smKey(ci)
		items := smGet(st, k)
		return smAlts(e, items, ci.Args[1],
			func(s2 *State, i int) (Value, bool) { return tuple(items[i+1], e.C.True), true },
			func(s2 *State) (Value, bool) {
				s2.extra[k] = &TupleV{E: append(append([]Value{}, items...), ci.Args[1], ci.Args[2])}
				smStoreMon(e, s2, ci)
				return tuple(ci.Args[2], e.C.False), true
			})
	}
	m["(*sync.Map).Delete"] = func(e *Exec, st *State, ci *CallInfo) Outcome {
		k := smKey(ci)
		items := smGet(st, k)
		return smAlts(e, items, ci.Args[1],
			func(s2 *State, i int) (Value, bool) {
				n := append([]Value{}, items[:i]...)
				s2.extra[k] = &TupleV{E: append(n, items[i+2:]...)}
				return nil, true
			},
			func(s2 *State) (Value, bool) { return nil, true })
	}
	m["sync/atomic.AddInt32"] = func(e *Exec, st *State, ci *CallInfo) Outcome {
		p := ci.Args[0].(*Ptr)
		nv := e.C.Add(st.load(p).(*sym.Term), ci.Args[1].(*sym.Term))
		st.store(p, nv)
		return val(nv)
	}
	m["sync/atomic.StoreInt32"] = func(e *Exec, st *State, ci *CallInfo) Outcome {
		st.store(ci.Args[0].(*Ptr), ci.Args[1])
		return val(nil)
	}
	m["sync/atomic.LoadInt32"] = func(e *Exec, st *State, ci *CallInfo) Outcome {
		return val(st.load(ci.Args[0].(*Ptr)))
	}
	// ---- bytes.Buffer as an immutable byte string in field 0
	bufGet := func(e *Exec, st *State, v Value) (*Ptr, *Str) {
		p := v.(*Ptr)
		if p.IsNil() {
			unsupportedf("nil *bytes.Buffer")
		}
		b := st.load(p.sub(0)).(*Str)
		if b.Nil {
			b = e.ConcStr("")
		}
		return p, b
	}
	m["(*bytes.Buffer).WriteString"] = func(e *Exec, st *State, ci *CallInfo) Outcome {
		p, b := bufGet(e, st, ci.Args[0])
		s := sArg(ci, 1)
		st.store(p.sub(0), e.Concat(b, s))
		return val(tuple(e.lenOf(s), nilIface))
	}
	m["(*bytes.Buffer).Write"] = m["(*bytes.Buffer).WriteString"]
	m["(*bytes.Buffer).WriteByte"] = func(e *Exec, st *State, ci *CallInfo) Outcome {
		p, b := bufGet(e, st, ci.Args[0])
		t := ci.Args[1].(*sym.Term)
		cv, ok := t.ConstVal()
		if !ok {
			unsupportedf("WriteByte of symbolic byte")
		}
		st.store(p.sub(0), e.Concat(b, e.ConcStr(string([]byte{byte(cv)}))))
		return val(nilIface)
	}
	m["(*bytes.Buffer).String"] = func(e *Exec, st *State, ci *CallInfo) Outcome {
		_, b := bufGet(e, st, ci.Args[0])
		return val(b)
	}
	m["(*bytes.Buffer).Bytes"] = m["(*bytes.Buffer).String"]
	m["(*bytes.Buffer).Len"] = func(e *Exec, st *State, ci *CallInfo) Outcome {
		_, b := bufGet(e, st, ci.Args[0])
		return val(e.lenOf(b))
	}
	m["(*bytes.Buffer).Reset"] = func(e *Exec, st *State, ci *CallInfo) Outcome {
		p, _ := bufGet(e, st, ci.Args[0])
		st.store(p.sub(0), e.ConcStr(""))
		return val(nil)
	}
	// ---- strings.Builder: the byte string lives in field 1 (buf); the self-pointer check (copy detection) is skipped
	sbGet := func(e *Exec, st *State, v Value) (*Ptr, *Str) {
		p := v.(*Ptr)
		if p.IsNil() {
			unsupportedf("nil *strings.Builder")
		}
		b, _ := st.load(p.sub(1)).(*Str)
		if b == nil || b.Nil {
			b = e.ConcStr("")
		}
		return p, b
	}
	m["(*strings.Builder).WriteString"] = func(e *Exec, st *State, ci *CallInfo) Outcome {
		p, b := sbGet(e, st, ci.Args[0])
		s := sArg(ci, 1)
		st.store(p.sub(1), e.Concat(b, s))
		return val(tuple(e.lenOf(s), nilIface))
	}
	m["(*strings.Builder).Write"] = m["(*strings.Builder).WriteString"]
	m["(*strings.Builder).WriteByte"] = func(e *Exec, st *State, ci *CallInfo) Outcome {
		p, b := sbGet(e, st, ci.Args[0])
		cv, ok := ci.Args[1].(*sym.Term).ConstVal()
		if !ok {
			unsupportedf("WriteByte of symbolic byte")
		}
		st.store(p.sub(1), e.Concat(b, e.ConcStr(string([]byte{byte(cv)}))))
		return val(nilIface)
	}
	m["(*strings.Builder).WriteRune"] = func(e *Exec, st *State, ci *CallInfo) Outcome {
		p, b := sbGet(e, st, ci.Args[0])
		cv, ok := ci.Args[1].(*sym.Term).ConstVal()
		if !ok || cv >= 0x80 {
			unsupportedf("WriteRune of symbolic or non-ASCII rune")
		}
		st.store(p.sub(1), e.Concat(b, e.ConcStr(string([]byte{byte(cv)}))))
		return val(tuple(e.i64(1), nilIface))
	}
	m["(*strings.Builder).String"] = func(e *Exec, st *State, ci *CallInfo) Outcome {
		_, b := sbGet(e, st, ci.Args[0])
		return val(b)
	}
	m["(*strings.Builder).Len"] = func(e *Exec, st *State, ci *CallInfo) Outcome {
		_, b := sbGet(e, st, ci.Args[0])
		return val(e.lenOf(b))
	}
	m["(*strings.Builder).Grow"] = func(e *Exec, st *State, ci *CallInfo) Outcome { return val(nil) }
	m["(*strings.Builder).Reset"] = func(e *Exec, st *State, ci *CallInfo) Outcome {
		p, _ := sbGet(e, st, ci.Args[0])
		st.store(p.sub(1), e.ConcStr(""))
		return val(nil)
	}
	// (*url.URL).EscapedPath for URLs without a RawPath (what the harnesses build): the path escaped byte by byte
	m["(*net/url.URL).EscapedPath"] = func(e *Exec, st *State, ci *CallInfo) Outcome {
		p := ci.Args[0].(*Ptr)
		raw, _ := st.load(p.sub(5)).(*Str)
		if raw == nil || !raw.IsConc || raw.Conc != "" {
			unsupportedf("URL.EscapedPath with a RawPath")
		}
		path := st.load(p.sub(4)).(*Str)
		return val(e.escapePath(path))
	}
	m["bytes.NewReader"] = func(e *Exec, st *State, ci *CallInfo) Outcome {
		return val(e.newModel(st, "bytes.Reader", map[string]Value{"data": ci.Args[0]}))
	}
	m["bytes.NewBufferString"] = func(e *Exec, st *State, ci *CallInfo) Outcome {
		t := e.namedType("bytes", "Buffer")
		z := e.zero(t).(*StructV)
		f := append([]Value{}, z.F...)
		f[0] = ci.Args[0]
		return val(st.alloc(&StructV{F: f}, t, "bytes.NewBufferString"))
	}
	m["bytes.NewBuffer"] = m["bytes.NewBufferString"]
	// ---- fmt.Fprint* to an io.Writer: concrete text only
	fprint := func(format bool, nl bool) Intrinsic {
		return func(e *Exec, st *State, ci *CallInfo) Outcome {
			w := ci.Args[0].(*Iface)
			var text *Str
			if format {
				o := inSprintf(e, st, &CallInfo{Args: ci.Args[1:]})
				text = o.Val.(*Str)
			} else {
				var parts []string
				for _, v := range e.sliceElems(st, ci.Args[1].(*SliceV)) {
					ifc := v.(*Iface)
					s, ok := ifc.V.(*Str)
					if !ok || !s.IsConc {
						unsupportedf("fmt.Fprint of non-string or symbolic value")
					}
					parts = append(parts, s.Conc)
				}
				t := strings.Join(parts, " ")
				if nl {
					t += "\n"
				}
				text = e.ConcStr(t)
			}
			return e.tailMethod(st, w, "Write", []Value{text}, nil)
		}
	}
	m["fmt.Fprintln"] = fprint(false, true)
	m["fmt.Fprint"] = fprint(false, false)
	m["fmt.Fprintf"] = fprint(true, false)
	m["io.WriteString"] = func(e *Exec, st *State, ci *CallInfo) Outcome {
		return e.tailMethod(st, ci.Args[0].(*Iface), "Write", []Value{ci.Args[1]}, nil)
	}
	registerMux(m)
	registerCodecs(m)
}

// tailMethod tail-calls method name on the dynamic type of an interface value.
func (e *Exec) tailMethod(st *State, recv *Iface, name string, args []Value, onReturn func(st *State, res Value) Value) Outcome {
	if recv.T == nil {
		e.runtimePanic(st, "invalid memory address or nil pointer dereference (nil interface in stub)")
		return handled
	}
	ms := e.Prog.MethodSets.MethodSet(recv.T)
	var sel *types.Selection
	for i := 0; i < ms.Len(); i++ {
		if ms.At(i).Obj().Name() == name {
			sel = ms.At(i)
			break
		}
	}
	if sel == nil {
		unsupportedf("method %s not found on %s", name, recv.T)
	}
	fn := e.Prog.MethodValue(sel)
	if fn == nil {
		unsupportedf("method %s on %s has no body", name, recv.T)
	}
	return Outcome{Kind: OutTail, Tail: &Closure{Fn: fn}, TailArgs: append([]Value{recv.V}, args...), OnReturn: onReturn}
}

// ---------------------------------------------------------------- http.ServeMux (Go 1.21 rules)

type muxEntry struct {
	pattern string
	handler Value
}

func muxEntries(m *ModelV) []muxEntry {
	var out []muxEntry
	if t, ok := m.F["entries"].(*TupleV); ok {
		for i := 0; i+1 < len(t.E); i += 2 {
			out = append(out, muxEntry{pattern: t.E[i].(*Str).Conc, handler: t.E[i+1]})
		}
	}
	return out
}

func registerMux(m map[string]Intrinsic) {
	m["net/http.NewServeMux"] = func(e *Exec, st *State, ci *CallInfo) Outcome {
		return val(e.newModel(st, "mux", map[string]Value{"entries": &TupleV{}}))
	}
	handle := func(e *Exec, st *State, muxV Value, pattern *Str, handler Value) Outcome {
		p, mv := e.model(st, muxV, "mux")
		if !pattern.IsConc {
			unsupportedf("ServeMux pattern must be concrete")
		}
		pat := pattern.Conc
		if pat == "" {
			e.startPanic(st, &Iface{T: types.Typ[types.String], V: e.ConcStr("http: invalid pattern")}, "http: invalid pattern")
			return handled
		}
		if pat[0] != '/' {
			unsupportedf("ServeMux host patterns are not modelled: %q", pat)
		}
		if h, ok := handler.(*Iface); ok && h.T == nil {
			e.startPanic(st, &Iface{T: types.Typ[types.String], V: e.ConcStr("http: nil handler")}, "http: nil handler")
			return handled
		}
		for _, en := range muxEntries(mv) {
			if en.pattern == pat {
				msg := "http: multiple registrations for " + pat
				e.startPanic(st, &Iface{T: types.Typ[types.String], V: e.ConcStr(msg)}, msg)
				return handled
			}
		}
		old := mv.F["entries"].(*TupleV)
		ne := &TupleV{E: append(append([]Value{}, old.E...), e.ConcStr(pat), handler)}
		st.setObj(p.Obj, mv.with("entries", ne))
		return val(nil)
	}
	m["(*net/http.ServeMux).Handle"] = func(e *Exec, st *State, ci *CallInfo) Outcome {
		return handle(e, st, ci.Args[0], sArg(ci, 1), ci.Args[2])
	}
	m["(*net/http.ServeMux).HandleFunc"] = func(e *Exec, st *State, ci *CallInfo) Outcome {
		cl := ci.Args[2].(*Closure)
		if cl.Fn == nil {
			e.startPanic(st, &Iface{T: types.Typ[types.String], V: e.ConcStr("http: nil handler")}, "http: nil handler")
			return handled
		}
		h := &Iface{T: e.namedType("net/http", "HandlerFunc"), V: cl}
		return handle(e, st, ci.Args[0], sArg(ci, 1), h)
	}
	m["(*net/http.ServeMux).ServeHTTP"] = func(e *Exec, st *State, ci *CallInfo) Outcome {
		c := e.C
		_, mv := e.model(st, ci.Args[0], "mux")
		w := ci.Args[1]
		rp := ci.Args[2].(*Ptr)
		reqT := e.namedType("net/http", "Request").Underlying().(*types.Struct)
		fieldIdx := func(s *types.Struct, name string) int {
			for i := 0; i < s.NumFields(); i++ {
				if s.Field(i).Name() == name {
					return i
				}
			}
			unsupportedf("field %s not found", name)
			return -1
		}
		urlP := st.load(rp.sub(fieldIdx(reqT, "URL"))).(*Ptr)
		if urlP.IsNil() {
			e.runtimePanic(st, "nil URL")
			return handled
		}
		urlT := e.namedType("net/url", "URL").Underlying().(*types.Struct)
		path := st.load(urlP.sub(fieldIdx(urlT, "Path"))).(*Str)
		entries := muxEntries(mv)
		// a clean path: starts with "/", no "//", no "." or ".." elements
		clean := c.And(
			e.HasPrefix(path, e.ConcStr("/")),
			c.Slt(e.Index(path, e.ConcStr("//"), nil), e.i64(0)),
			c.Slt(e.Index(path, e.ConcStr("/./"), nil), e.i64(0)),
			c.Slt(e.Index(path, e.ConcStr("/../"), nil), e.i64(0)),
			c.Not(e.HasSuffix(path, e.ConcStr("/."))),
			c.Not(e.HasSuffix(path, e.ConcStr("/.."))),
		)
		var alts []AltOut
		alts = append(alts, AltOut{Cond: c.Not(clean), Do: func(s2 *State) bool {
			e.endPath(s2, EndUnmodelled)
			e.Res.Notes["unmodelled: ServeMux redirect of a path that is not clean"]++
			return false
		}})
		serve := func(h Value) func(s2 *State) bool {
			return func(s2 *State) bool {
				out := e.tailMethod(s2, h.(*Iface), "ServeHTTP", []Value{w, rp}, nil)
				e.finishIntrinsic(s2, s2.top(), ci.Call, out, ci.deferredCall)
				return false
			}
		}
		var exact []*sym.Term
		for _, en := range entries {
			exact = append(exact, e.StrEq(path, e.ConcStr(en.pattern)))
		}
		anyExact := c.Or(exact...)
		var earlier []*sym.Term
		for i, en := range entries {
			cond := c.And(clean, exact[i], c.Not(c.Or(earlier...)))
			alts = append(alts, AltOut{Cond: cond, Do: serve(en.handler)})
			earlier = append(earlier, exact[i])
		}
		// redirect to path+"/" when that is registered and path is not
		var redir []*sym.Term
		for _, en := range entries {
			if strings.HasSuffix(en.pattern, "/") && len(en.pattern) > 1 {
				redir = append(redir, e.StrEq(path, e.ConcStr(en.pattern[:len(en.pattern)-1])))
			}
		}
		anyRedir := c.And(c.Not(anyExact), c.Or(redir...))
		alts = append(alts, AltOut{Cond: c.And(clean, anyRedir), Do: func(s2 *State) bool {
			s2.Covers = append(s2.Covers, "mux-redirect-301")
			out := e.tailMethod(s2, w.(*Iface), "WriteHeader", []Value{e.i64(301)}, nil)
			e.finishIntrinsic(s2, s2.top(), ci.Call, out, ci.deferredCall)
			return false
		}})
		// longest registered prefix ending in "/"
		var pre []muxEntry
		for _, en := range entries {
			if strings.HasSuffix(en.pattern, "/") {
				pre = append(pre, en)
			}
		}
		sort.SliceStable(pre, func(i, j int) bool { return len(pre[i].pattern) > len(pre[j].pattern) })
		none := []*sym.Term{clean, c.Not(anyExact), c.Not(anyRedir)}
		for _, en := range pre {
			has := e.HasPrefix(path, e.ConcStr(en.pattern))
			alts = append(alts, AltOut{Cond: c.And(append(append([]*sym.Term{}, none...), has)...), Do: serve(en.handler)})
			none = append(none, c.Not(has))
		}
		alts = append(alts, AltOut{Cond: c.And(none...), Do: func(s2 *State) bool {
			nf := e.Prog.ImportedPackage("net/http").Func("NotFound")
			out := Outcome{Kind: OutTail, Tail: &Closure{Fn: nf}, TailArgs: []Value{w, rp}}
			e.finishIntrinsic(s2, s2.top(), ci.Call, out, ci.deferredCall)
			return false
		}})
		return Outcome{Kind: OutAlts, Exhaustive: true, Alts: alts}
	}
}

var _ = fmt.Sprintf
