package exec

import (
	"net/url"
	"fmt"

	"verif/engine/sym"
)

// String summaries over the bounded byte-vector model (DESIGN A.4).

func (e *Exec) ConcStr(s string) *Str {
	return &Str{IsConc: true, Conc: s, Max: len(s)}
}

func (e *Exec) i64(v int) *sym.Term { return e.C.BV(uint64(int64(v)), 64) }

func (e *Exec) baseOf(s *Str) *StrBase {
	if !s.IsConc {
		return s.Base
	}
	cells := make([]*sym.Term, len(s.Conc))
	for i := 0; i < len(s.Conc); i++ {
		cells[i] = e.C.BV(uint64(s.Conc[i]), 8)
	}
	return &StrBase{Cells: cells, Name: "const"}
}

func (e *Exec) offOf(s *Str) *sym.Term {
	if s.IsConc {
		return e.i64(0)
	}
	return s.Off
}

func (e *Exec) lenOf(s *Str) *sym.Term {
	if s.IsConc {
		return e.i64(len(s.Conc))
	}
	return s.Len
}

// mkView builds a view and concretises it when everything is constant.
func (e *Exec) mkView(base *StrBase, off, ln *sym.Term, max int) *Str {
	if max > len(base.Cells) {
		max = len(base.Cells)
	}
	if lv, ok := ln.ConstVal(); ok {
		if int(lv) < max {
			max = int(lv)
		}
		if lv == 0 {
			return e.ConcStr("")
		}
		if ov, ok2 := off.ConstVal(); ok2 {
			o, l := int(ov), int(lv)
			if o >= 0 && o+l <= len(base.Cells) {
				buf := make([]byte, l)
				all := true
				for i := 0; i < l; i++ {
					cv, ok3 := base.Cells[o+i].ConstVal()
					if !ok3 {
						all = false
						break
					}
					buf[i] = byte(cv)
				}
				if all {
					return e.ConcStr(string(buf))
				}
			}
		}
	}
	if ov, ok := off.ConstVal(); ok {
		if rem := len(base.Cells) - int(ov); rem < max {
			max = rem
		}
	}
	if max < 0 {
		max = 0
	}
	return &Str{Base: base, Off: off, Len: ln, Max: max}
}

// muxCell returns base[idx] for a symbolic index (0 when out of range).
func (e *Exec) muxCell(base *StrBase, idx *sym.Term) *sym.Term {
	if v, ok := idx.ConstVal(); ok {
		if int64(v) >= 0 && int(v) < len(base.Cells) {
			return base.Cells[v]
		}
		return e.C.BV(0, 8)
	}
	if base.mux == nil {
		base.mux = map[int]*sym.Term{}
	}
	if t, ok := base.mux[idx.ID]; ok {
		return t
	}
	n := len(base.Cells)
	res := e.C.BV(0, 8)
	for j := n - 1; j >= 0; j-- {
		res = e.C.Ite(e.C.Eq(idx, e.i64(j)), base.Cells[j], res)
	}
	base.mux[idx.ID] = res
	return res
}

// at returns byte k (constant position) of the view.
func (e *Exec) at(s *Str, k int) *sym.Term {
	if s.IsConc {
		if k < len(s.Conc) {
			return e.C.BV(uint64(s.Conc[k]), 8)
		}
		return e.C.BV(0, 8)
	}
	return e.muxCell(s.Base, e.C.Add(s.Off, e.i64(k)))
}

// atT returns the byte at a symbolic position.
func (e *Exec) atT(s *Str, k *sym.Term) *sym.Term {
	if kv, ok := k.ConstVal(); ok {
		return e.at(s, int(kv))
	}
	b := e.baseOf(s)
	return e.muxCell(b, e.C.Add(e.offOf(s), k))
}

// NewSymStr creates a fresh symbolic string of capacity cap. The returned
// constraints (length bound, ASCII) must be added to the path condition.
func (e *Exec) NewSymStr(name string, cap int) (*Str, []*sym.Term) {
	cells := make([]*sym.Term, cap)
	var cons []*sym.Term
	for i := 0; i < cap; i++ {
		cells[i] = e.C.Var(fmt.Sprintf("%s!%d", name, i), 8)
		cons = append(cons, e.C.Ule(cells[i], e.C.BV(0x7f, 8)))
	}
	l8 := e.C.Var(name+"!len", 8)
	cons = append(cons, e.C.Ule(l8, e.C.BV(uint64(cap), 8)))
	base := &StrBase{Cells: cells, Name: name}
	return &Str{Base: base, Off: e.i64(0), Len: e.C.Zext(l8, 64), Max: cap}, cons
}

func minInt(a, b int) int {
	if a < b {
		return a
	}
	return b
}

// StrEq: s == t.
func (e *Exec) StrEq(s, t *Str) *sym.Term {
	c := e.C
	if s.IsConc && t.IsConc {
		return c.Bool(s.Conc == t.Conc)
	}
	if s.IsConc {
		s, t = t, s
	}
	if t.IsConc {
		n := len(t.Conc)
		if n > s.Max {
			return c.False
		}
		conj := []*sym.Term{c.Eq(s.Len, e.i64(n))}
		for k := 0; k < n; k++ {
			conj = append(conj, c.Eq(e.at(s, k), c.BV(uint64(t.Conc[k]), 8)))
		}
		return c.And(conj...)
	}
	if s.Base == t.Base && s.Off == t.Off {
		return c.Eq(s.Len, t.Len)
	}
	n := minInt(s.Max, t.Max)
	conj := []*sym.Term{c.Eq(s.Len, t.Len)}
	for k := 0; k < n; k++ {
		conj = append(conj, c.Or(c.Sle(s.Len, e.i64(k)), c.Eq(e.at(s, k), e.at(t, k))))
	}
	return c.And(conj...)
}

// StrLt: s < t lexicographically (bytes).
func (e *Exec) StrLt(s, t *Str) *sym.Term {
	c := e.C
	if s.IsConc && t.IsConc {
		return c.Bool(s.Conc < t.Conc)
	}
	n := minInt(s.Max, t.Max)
	ls, lt := e.lenOf(s), e.lenOf(t)
	// result at position k given equal so far
	res := c.Slt(ls, lt) // all compared equal up to min cap: shorter is less
	for k := n - 1; k >= 0; k-- {
		kk := e.i64(k)
		sEnd := c.Sle(ls, kk)
		tEnd := c.Sle(lt, kk)
		a, b := e.at(s, k), e.at(t, k)
		// if s ended: less iff t not ended; if t ended: not less
		res = c.Ite(sEnd, c.Not(tEnd),
			c.Ite(tEnd, c.False,
				c.Ite(c.Ult(a, b), c.True,
					c.Ite(c.Ult(b, a), c.False, res))))
	}
	return res
}

// HasPrefix(s, p).
func (e *Exec) HasPrefix(s, p *Str) *sym.Term {
	c := e.C
	if s.IsConc && p.IsConc {
		return c.Bool(len(s.Conc) >= len(p.Conc) && s.Conc[:len(p.Conc)] == p.Conc)
	}
	if p.IsConc {
		n := len(p.Conc)
		if n > s.Max {
			return c.False
		}
		conj := []*sym.Term{c.Sge(e.lenOf(s), e.i64(n))}
		for k := 0; k < n; k++ {
			conj = append(conj, c.Eq(e.at(s, k), c.BV(uint64(p.Conc[k]), 8)))
		}
		return c.And(conj...)
	}
	n := minInt(s.Max, p.Max)
	lp := e.lenOf(p)
	conj := []*sym.Term{c.Sge(e.lenOf(s), lp)}
	for k := 0; k < n; k++ {
		conj = append(conj, c.Or(c.Sle(lp, e.i64(k)), c.Eq(e.at(s, k), e.at(p, k))))
	}
	if p.Max > s.Max {
		conj = append(conj, c.Sle(lp, e.i64(s.Max)))
	}
	return c.And(conj...)
}

// HasSuffix(s, p).
func (e *Exec) HasSuffix(s, p *Str) *sym.Term {
	c := e.C
	if s.IsConc && p.IsConc {
		return c.Bool(len(s.Conc) >= len(p.Conc) && s.Conc[len(s.Conc)-len(p.Conc):] == p.Conc)
	}
	ls, lp := e.lenOf(s), e.lenOf(p)
	start := c.Sub(ls, lp)
	n := minInt(s.Max, p.Max)
	conj := []*sym.Term{c.Sge(ls, lp)}
	for k := 0; k < n; k++ {
		conj = append(conj, c.Or(c.Sle(lp, e.i64(k)),
			c.Eq(e.atT(s, c.Add(start, e.i64(k))), e.at(p, k))))
	}
	return c.And(conj...)
}

// matchAt: sep occurs in s at constant position k.
func (e *Exec) matchAt(s *Str, k int, sep *Str) *sym.Term {
	c := e.C
	if sep.IsConc {
		m := len(sep.Conc)
		conj := []*sym.Term{c.Sle(e.i64(k+m), e.lenOf(s))}
		for r := 0; r < m; r++ {
			conj = append(conj, c.Eq(e.at(s, k+r), c.BV(uint64(sep.Conc[r]), 8)))
		}
		return c.And(conj...)
	}
	lm := e.lenOf(sep)
	conj := []*sym.Term{c.Sle(c.Add(e.i64(k), lm), e.lenOf(s))}
	for r := 0; r < sep.Max; r++ {
		conj = append(conj, c.Or(c.Sle(lm, e.i64(r)), c.Eq(e.at(s, k+r), e.at(sep, r))))
	}
	return c.And(conj...)
}

// Index(s, sep): first occurrence or -1. from >= 0 restricts to positions >= from (may be nil).
func (e *Exec) Index(s, sep *Str, from *sym.Term) *sym.Term {
	c := e.C
	res := e.i64(-1)
	minSep := 0
	if sep.IsConc {
		minSep = len(sep.Conc)
	}
	for k := s.Max - minSep; k >= 0; k-- {
		m := e.matchAt(s, k, sep)
		if from != nil {
			m = c.And(m, c.Sle(from, e.i64(k)))
		}
		res = c.Ite(m, e.i64(k), res)
	}
	return res
}

// LastIndex(s, sep).
func (e *Exec) LastIndex(s, sep *Str) *sym.Term {
	c := e.C
	res := e.i64(-1)
	minSep := 0
	if sep.IsConc {
		minSep = len(sep.Conc)
	}
	for k := 0; k <= s.Max-minSep; k++ {
		res = c.Ite(e.matchAt(s, k, sep), e.i64(k), res)
	}
	return res
}

// IndexByteSet returns the first position whose byte satisfies pred, or -1.
func (e *Exec) IndexFunc(s *Str, pred func(b *sym.Term) *sym.Term) *sym.Term {
	c := e.C
	res := e.i64(-1)
	ls := e.lenOf(s)
	for k := s.Max - 1; k >= 0; k-- {
		res = c.Ite(c.And(c.Slt(e.i64(k), ls), pred(e.at(s, k))), e.i64(k), res)
	}
	return res
}

// Slice returns s[lo:hi] without bounds checking (caller checks).
func (e *Exec) StrSlice(s *Str, lo, hi *sym.Term) *Str {
	c := e.C
	if s.IsConc {
		lv, ok1 := lo.ConstVal()
		hv, ok2 := hi.ConstVal()
		if ok1 && ok2 && int64(lv) >= 0 && int64(lv) <= int64(hv) && int(hv) <= len(s.Conc) {
			return e.ConcStr(s.Conc[lv:hv])
		}
	}
	base := e.baseOf(s)
	max := s.Max
	if hv, ok := hi.ConstVal(); ok && int64(hv) >= 0 && int(hv) < max {
		max = int(hv)
	}
	if lv, ok := lo.ConstVal(); ok && int64(lv) > 0 {
		max -= int(lv)
	}
	return e.mkView(base, c.Add(e.offOf(s), lo), c.Sub(hi, lo), max)
}

// Concat a + b.
func (e *Exec) Concat(a, b *Str) *Str {
	c := e.C
	if a.IsConc && b.IsConc {
		return e.ConcStr(a.Conc + b.Conc)
	}
	if a.IsConc && a.Conc == "" {
		return b
	}
	if b.IsConc && b.Conc == "" {
		return a
	}
	n := a.Max + b.Max
	cells := make([]*sym.Term, n)
	la := e.lenOf(a)
	for k := 0; k < n; k++ {
		kk := e.i64(k)
		var fromA *sym.Term
		if k < a.Max {
			fromA = e.at(a, k)
		} else {
			fromA = c.BV(0, 8)
		}
		// byte from b at k - la
		var fromB *sym.Term
		if lav, ok := la.ConstVal(); ok {
			idx := k - int(lav)
			if idx >= 0 && idx < b.Max {
				fromB = e.at(b, idx)
			} else {
				fromB = c.BV(0, 8)
			}
		} else {
			fromB = e.atT(b, c.Sub(kk, la))
		}
		cells[k] = c.Ite(c.Slt(kk, la), fromA, fromB)
	}
	base := &StrBase{Cells: cells, Name: "cat"}
	return e.mkView(base, e.i64(0), c.Add(la, e.lenOf(b)), n)
}

// byteIn builds the predicate "byte b is one of the bytes of set".
func (e *Exec) byteIn(b *sym.Term, set string) *sym.Term {
	c := e.C
	var dis []*sym.Term
	for i := 0; i < len(set); i++ {
		dis = append(dis, c.Eq(b, c.BV(uint64(set[i]), 8)))
	}
	return c.Or(dis...)
}

// byteInTable: table[b] for b < 128.
func (e *Exec) byteInTable(b *sym.Term, table *[128]bool) *sym.Term {
	c := e.C
	var dis []*sym.Term
	i := 0
	for i < 128 {
		if !table[i] {
			i++
			continue
		}
		j := i
		for j+1 < 128 && table[j+1] {
			j++
		}
		if i == j {
			dis = append(dis, c.Eq(b, c.BV(uint64(i), 8)))
		} else if i == 0 && j == 127 {
			dis = append(dis, c.Ule(b, c.BV(127, 8)))
		} else if i == 0 {
			dis = append(dis, c.Ule(b, c.BV(uint64(j), 8)))
		} else {
			dis = append(dis, c.And(c.Ule(c.BV(uint64(i), 8), b), c.Ule(b, c.BV(uint64(j), 8))))
		}
		i = j + 1
	}
	return c.Or(dis...)
}

// TrimPred trims leading and/or trailing bytes satisfying pred.
func (e *Exec) TrimPred(s *Str, pred func(b *sym.Term) *sym.Term, left, right bool) *Str {
	c := e.C
	ls := e.lenOf(s)
	n := s.Max
	lead := e.i64(0)
	if left {
		// lead = first k with k >= len or !pred(at k)
		lead = e.i64(n)
		for k := n - 1; k >= 0; k-- {
			stop := c.Or(c.Sle(ls, e.i64(k)), c.Not(pred(e.at(s, k))))
			lead = c.Ite(stop, e.i64(k), lead)
		}
		// lead cannot exceed len
		lead = c.Ite(c.Slt(ls, lead), ls, lead)
	}
	end := ls
	if right {
		// end = largest k in [1,len] with !pred(at(k-1)), else 0
		end = e.i64(0)
		for k := 1; k <= n; k++ {
			keep := c.And(c.Sle(e.i64(k), ls), c.Not(pred(e.at(s, k-1))))
			end = c.Ite(keep, e.i64(k), end)
		}
	}
	var newLen *sym.Term
	if left && right {
		newLen = c.Ite(c.Sle(end, lead), e.i64(0), c.Sub(end, lead))
	} else {
		newLen = c.Sub(end, lead)
	}
	if s.IsConc {
		// all terms are constant
		lv, _ := lead.ConstVal()
		nv, _ := newLen.ConstVal()
		return e.ConcStr(s.Conc[lv : lv+nv])
	}
	return e.mkView(s.Base, c.Add(s.Off, lead), newLen, s.Max)
}

// mapBytes returns a string of the same shape with f applied to each cell.
func (e *Exec) mapBytes(s *Str, lower bool) *Str {
	c := e.C
	if s.IsConc {
		b := []byte(s.Conc)
		for i, ch := range b {
			if lower && ch >= 'A' && ch <= 'Z' {
				b[i] = ch + 32
			}
			if !lower && ch >= 'a' && ch <= 'z' {
				b[i] = ch - 32
			}
		}
		return e.ConcStr(string(b))
	}
	base := s.Base
	var nb *StrBase
	if lower {
		nb = base.lower
	} else {
		nb = base.upper
	}
	if nb == nil {
		cells := make([]*sym.Term, len(base.Cells))
		for i, cell := range base.Cells {
			if lower {
				isUp := c.And(c.Ule(c.BV('A', 8), cell), c.Ule(cell, c.BV('Z', 8)))
				cells[i] = c.Ite(isUp, c.Add(cell, c.BV(32, 8)), cell)
			} else {
				isLo := c.And(c.Ule(c.BV('a', 8), cell), c.Ule(cell, c.BV('z', 8)))
				cells[i] = c.Ite(isLo, c.Sub(cell, c.BV(32, 8)), cell)
			}
		}
		nb = &StrBase{Cells: cells, Name: base.Name + "~"}
		if lower {
			base.lower = nb
		} else {
			base.upper = nb
		}
	}
	return &Str{Base: nb, Off: s.Off, Len: s.Len, Max: s.Max}
}

// CountByte counts occurrences of a single byte as a BV64 term plus the
// per-position rank terms (number of occurrences strictly before k).
func (e *Exec) sepRanks(s *Str, sep byte) (isSep []*sym.Term, rank []*sym.Term, count *sym.Term) {
	c := e.C
	ls := e.lenOf(s)
	n := s.Max
	isSep = make([]*sym.Term, n)
	rank = make([]*sym.Term, n+1)
	acc := c.BV(0, 8)
	for k := 0; k < n; k++ {
		rank[k] = acc
		isSep[k] = c.And(c.Slt(e.i64(k), ls), c.Eq(e.at(s, k), c.BV(uint64(sep), 8)))
		acc = c.Add(acc, c.Ite(isSep[k], c.BV(1, 8), c.BV(0, 8)))
	}
	rank[n] = acc
	return isSep, rank, c.Zext(acc, 64)
}

// SplitPieces returns the n+1 pieces of s split at a one-byte separator, valid
// under the assumption count == n (which the caller asserts).
func (e *Exec) splitPieces(s *Str, isSep, rank []*sym.Term, n int) []*Str {
	c := e.C
	ls := e.lenOf(s)
	pos := make([]*sym.Term, n)
	for i := 0; i < n; i++ {
		p := e.i64(0)
		for k := s.Max - 1; k >= 0; k-- {
			p = c.Ite(c.And(isSep[k], c.Eq(rank[k], c.BV(uint64(i), 8))), e.i64(k), p)
		}
		pos[i] = p
	}
	pieces := make([]*Str, n+1)
	start := e.i64(0)
	for i := 0; i <= n; i++ {
		var end *sym.Term
		if i < n {
			end = pos[i]
		} else {
			end = ls
		}
		pieces[i] = e.StrSlice(s, start, end)
		if i < n {
			start = c.Add(pos[i], e.i64(1))
		}
	}
	return pieces
}

// StrConcrete evaluates a string under a model.
func (e *Exec) StrConcrete(s *Str, ev *sym.Evaluator) string {
	if s.IsConc {
		return s.Conc
	}
	off := int(int64(ev.Eval(s.Off)))
	ln := int(int64(ev.Eval(s.Len)))
	if ln < 0 {
		ln = 0
	}
	buf := make([]byte, 0, ln)
	for i := 0; i < ln; i++ {
		idx := off + i
		if idx >= 0 && idx < len(s.Base.Cells) {
			buf = append(buf, byte(ev.Eval(s.Base.Cells[idx])))
		} else {
			buf = append(buf, 0)
		}
	}
	return string(buf)
}

// IteStr: term-level conditional on strings.
func (e *Exec) IteStr(c *sym.Term, a, b *Str) *Str {
	cc := e.C
	if !a.IsConc && !b.IsConc && a.Base == b.Base {
		max := a.Max
		if b.Max > max {
			max = b.Max
		}
		return e.mkView(a.Base, cc.Ite(c, a.Off, b.Off), cc.Ite(c, a.Len, b.Len), max)
	}
	// general case: cell-wise conditional on a fresh base
	n := a.Max
	if b.Max > n {
		n = b.Max
	}
	cells := make([]*sym.Term, n)
	for k := 0; k < n; k++ {
		var x, y *sym.Term = cc.BV(0, 8), cc.BV(0, 8)
		if k < a.Max {
			x = e.at(a, k)
		}
		if k < b.Max {
			y = e.at(b, k)
		}
		cells[k] = cc.Ite(c, x, y)
	}
	return e.mkView(&StrBase{Cells: cells, Name: "ite"}, e.i64(0), cc.Ite(c, e.lenOf(a), e.lenOf(b)), n)
}

// escapePath: net/url's escape(s, encodePath) over a symbolic byte string - every byte that is not unreserved and not
// one of $&+,/:;=@ becomes %XX (upper-case hex). The output has up to 3*Max bytes; byte k of the input lands at the
// prefix sum of the widths before it.
func (e *Exec) escapePath(s *Str) *Str {
	c := e.C
	if s.IsConc {
		return e.ConcStr((&url.URL{Path: s.Conc}).EscapedPath())
	}
	n := s.Max
	ln := e.lenOf(s)
	var keep [128]bool
	for _, ch := range "abcdefghijklmnopqrstuvwxyzABCDEFGHIJKLMNOPQRSTUVWXYZ0123456789-_.~$&+,/:;=@" {
		keep[ch] = true
	}
	b := make([]*sym.Term, n)
	esc := make([]*sym.Term, n)
	valid := make([]*sym.Term, n)
	pos := make([]*sym.Term, n+1)
	pos[0] = e.i64(0)
	for k := 0; k < n; k++ {
		b[k] = e.at(s, k)
		esc[k] = c.Not(e.byteInTable(b[k], &keep))
		valid[k] = c.Slt(e.i64(k), ln)
		w := c.Ite(valid[k], c.Ite(esc[k], e.i64(3), e.i64(1)), e.i64(0))
		pos[k+1] = c.Add(pos[k], w)
	}
	hex := func(nib *sym.Term) *sym.Term { // nib: BV8 in 0..15
		return c.Ite(c.Ult(nib, c.BV(10, 8)), c.Add(nib, c.BV('0', 8)), c.Add(nib, c.BV('A'-10, 8)))
	}
	cells := make([]*sym.Term, 3*n)
	for j := 0; j < 3*n; j++ {
		cell := c.BV(0, 8)
		jj := e.i64(j)
		for k := n - 1; k >= 0; k-- {
			if j < k || j > 3*k+2 {
				continue // byte k starts somewhere in k..3k
			}
			at0 := c.And(valid[k], c.Eq(pos[k], jj))
			at1 := c.And(valid[k], esc[k], c.Eq(c.Add(pos[k], e.i64(1)), jj))
			at2 := c.And(valid[k], esc[k], c.Eq(c.Add(pos[k], e.i64(2)), jj))
			hi := hex(c.Lshr(b[k], c.BV(4, 8)))
			lo := hex(c.BvAnd(b[k], c.BV(15, 8)))
			cell = c.Ite(at0, c.Ite(esc[k], c.BV('%', 8), b[k]), c.Ite(at1, hi, c.Ite(at2, lo, cell)))
		}
		cells[j] = cell
	}
	base := &StrBase{Cells: cells, Name: "escaped"}
	esc0 := e.mkView(base, e.i64(0), pos[n], 3*n)
	// (*URL).EscapedPath leaves the path "*" alone
	return e.IteStr(e.StrEq(s, e.ConcStr("*")), e.ConcStr("*"), esc0)
}
