package exec

import (
	"fmt"
	"go/types"

	"golang.org/x/tools/go/ssa"

	"verif/engine/sym"
)

type deferred struct {
	fn   Value // *Closure or builtin marker
	args []Value
	bi   *ssa.Builtin
}

type Frame struct {
	fn      *ssa.Function
	info    *fnInfo
	block   *ssa.BasicBlock
	prev    *ssa.BasicBlock
	idx     int
	env     []Value
	defers  []deferred
	retSlot int  // slot in caller env for the result; -1 none
	advance bool // caller advances past its call instruction on return
	isDefer bool // this frame runs a deferred call
	unwound bool // a panic is unwinding through this frame
	// onReturn, if set, post-processes the results (for intrinsic tail calls).
	onReturn func(st *State, res Value) Value
}

func (f *Frame) clone() *Frame {
	n := *f
	n.env = make([]Value, len(f.env))
	copy(n.env, f.env)
	if len(f.defers) > 0 {
		n.defers = make([]deferred, len(f.defers))
		copy(n.defers, f.defers)
	}
	return &n
}

type PanicV struct {
	Val  Value // the interface value passed to panic
	Desc string
}

// InputRec records one nondeterministic input created on the path.
type InputRec struct {
	Name string
	Kind string // "string", "int", "bool", "choice"
	Val  Value
}

type ObsRec struct {
	Key string
	Val Value
}

type KnownClass struct {
	ID   string
	Cond *sym.Term
}

// State is one path's machine state.
type State struct {
	heap      []*Obj
	frames    []*Frame
	PC        []*sym.Term
	Model     sym.Model
	ev        *sym.Evaluator
	evAt      int
	panicking *PanicV
	unwinding bool
	extra     map[string]Value
	Inputs    []InputRec
	Obs       []ObsRec
	Covers    []string
	Known     []KnownClass
	Tags      []string
	steps     int
	epoch     int
	frameMon  *frameMon
	Forks     int
	done      bool
	mapOrders bool
	facts     map[int]bool
	splits    map[string][]*Str
	rec       *Recorder
	sched     *schedState
	mayFail   bool // some obligation on this path has a counterexample (or a finding was recorded)
}

// addPC appends t to the path condition and records simple facts.
func (st *State) addPC(t *sym.Term) {
	st.PC = append(st.PC, t)
	st.learn(t, true)
}

func (st *State) learn(t *sym.Term, v bool) {
	if t.Op == sym.OpConst {
		return
	}
	if st.facts == nil {
		st.facts = map[int]bool{}
	}
	st.facts[t.ID] = v
	switch t.Op {
	case sym.OpNot:
		st.learn(t.Args[0], !v)
	case sym.OpAnd:
		if v {
			for _, a := range t.Args {
				st.learn(a, true)
			}
		}
	case sym.OpOr:
		if !v {
			for _, a := range t.Args {
				st.learn(a, false)
			}
		}
	}
}

// factOf returns (value, known) for a Bool term from the recorded facts.
func (st *State) factOf(t *sym.Term) (bool, bool) {
	if t.Op == sym.OpConst {
		return t.Val == 1, true
	}
	if v, ok := st.facts[t.ID]; ok {
		return v, true
	}
	switch t.Op {
	case sym.OpNot:
		if v, ok := st.factOf(t.Args[0]); ok {
			return !v, true
		}
	case sym.OpAnd:
		all := true
		for _, a := range t.Args {
			v, ok := st.factOf(a)
			if ok && !v {
				return false, true
			}
			if !ok {
				all = false
			}
		}
		if all {
			return true, true
		}
	case sym.OpOr:
		all := true
		for _, a := range t.Args {
			v, ok := st.factOf(a)
			if ok && v {
				return true, true
			}
			if !ok {
				all = false
			}
		}
		if all {
			return false, true
		}
	}
	return false, false
}

type frameMon struct {
	epoch   int
	owned   map[int]bool
	allowed map[int]bool
	label   string
}

func (st *State) Clone() *State {
	n := *st
	n.heap = make([]*Obj, len(st.heap), len(st.heap)+16)
	copy(n.heap, st.heap)
	n.frames = make([]*Frame, len(st.frames))
	for i, f := range st.frames {
		n.frames[i] = f.clone()
	}
	n.PC = append([]*sym.Term(nil), st.PC...)
	n.extra = make(map[string]Value, len(st.extra))
	for k, v := range st.extra {
		n.extra[k] = v
	}
	n.Inputs = append([]InputRec(nil), st.Inputs...)
	n.Obs = append([]ObsRec(nil), st.Obs...)
	n.Covers = append([]string(nil), st.Covers...)
	n.Known = append([]KnownClass(nil), st.Known...)
	n.Tags = append([]string(nil), st.Tags...)
	if st.frameMon != nil {
		fm := *st.frameMon
		n.frameMon = &fm
	}
	if st.rec != nil {
		n.rec = st.rec.clone()
	}
	if st.sched != nil {
		n.sched = st.sched.clone()
	}
	n.facts = make(map[int]bool, len(st.facts))
	for k, v := range st.facts {
		n.facts[k] = v
	}
	n.splits = make(map[string][]*Str, len(st.splits))
	for k, v := range st.splits {
		n.splits[k] = v
	}
	return &n
}

func (st *State) top() *Frame { return st.frames[len(st.frames)-1] }

func (st *State) setModel(m sym.Model) {
	st.Model = m
	st.ev = sym.NewEvaluator(m)
}

func (st *State) alloc(v Value, t types.Type, site string) *Ptr {
	id := len(st.heap)
	st.heap = append(st.heap, &Obj{V: v, Epoch: st.epoch, Site: site, Typ: t})
	return &Ptr{Obj: id}
}

type unsupported struct{ msg string }

func unsupportedf(format string, args ...interface{}) {
	panic(unsupported{fmt.Sprintf(format, args...)})
}

func (st *State) load(p *Ptr) Value {
	v := st.heap[p.Obj].V
	for _, i := range p.Path {
		switch x := v.(type) {
		case *StructV:
			v = x.F[i]
		case *ArrayV:
			v = x.E[i]
		default:
			unsupportedf("load through %T", v)
		}
	}
	return v
}

func setPath(v Value, path []int, nv Value) Value {
	if len(path) == 0 {
		return nv
	}
	i := path[0]
	switch x := v.(type) {
	case *StructV:
		f := make([]Value, len(x.F))
		copy(f, x.F)
		f[i] = setPath(x.F[i], path[1:], nv)
		return &StructV{F: f}
	case *ArrayV:
		el := make([]Value, len(x.E))
		copy(el, x.E)
		el[i] = setPath(x.E[i], path[1:], nv)
		return &ArrayV{E: el}
	}
	unsupportedf("store through %T", v)
	return nil
}

func (st *State) store(p *Ptr, nv Value) {
	o := st.heap[p.Obj]
	st.heap[p.Obj] = &Obj{V: setPath(o.V, p.Path, nv), Epoch: o.Epoch, Site: o.Site, Typ: o.Typ}
}

func (st *State) setObj(id int, v Value) {
	o := st.heap[id]
	st.heap[id] = &Obj{V: v, Epoch: o.Epoch, Site: o.Site, Typ: o.Typ}
}
