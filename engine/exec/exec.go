package exec

import (
	"fmt"
	"go/constant"
	"go/token"
	"go/types"
	"os"
	"sort"
	"strings"
	"time"

	"golang.org/x/tools/go/ssa"

	"verif/engine/smt"
	"verif/engine/sym"
)

type fnInfo struct {
	slots map[ssa.Value]int
	n     int
}

// PathEnd kinds.
const (
	EndReturn      = "return"
	EndPanic       = "panic"
	EndExit        = "exit"
	EndInfeasible  = "infeasible"
	EndUnsupported = "unsupported"
	EndLimit       = "limit"
	EndUnspecified = "unspecified"
	EndUnmodelled  = "unmodelled"
)

type Violation struct {
	Msg     string
	Inputs  map[string]interface{}
	Known   string // non-empty: matches a known class id
	PathTag string
}

// RunResult collects everything one harness run (one configuration) produced.
type RunResult struct {
	Paths        int
	Ends         map[string]int
	Covers       map[string]int
	CoverInputs  map[string]map[string]interface{}
	Obligations  int
	Discharged   int
	Trivial      int
	Violations   []Violation
	Inconclusive []string
	Samples      []PathSample
	Funcs        map[string]bool
	Intrinsics   map[string]bool
	MaxForkDepth int
	sampleLimit  int
	Notes        map[string]int
	Scripts      []ObligationScript
	ScriptLimit  int
}

// ObligationScript is a standalone SMT-LIB rendering of one discharged
// obligation, for re-asking other solvers.
type ObligationScript struct {
	Msg    string
	Expect string
	SMT    string
}

type PathSample struct {
	Inputs map[string]interface{}
	Obs    map[string]interface{}
	End    string
	Tags   []string
	// MayFail: some obligation on this path has a counterexample; only when it is false must a native run of the
	// sampled inputs be free of assertion failures
	MayFail bool
}

type Alt struct {
	Cond  *sym.Term
	Apply func(st *State)
	Tag   string
}

type Exec struct {
	SchedDebug bool // record source positions of the turn-taking points of a schedule (input __schedule_at)
	C          *sym.Ctx
	S          *smt.Solver
	Prog       *ssa.Program
	Pkg        *ssa.Package
	fninfo     map[*ssa.Function]*fnInfo
	intr       map[string]Intrinsic
	init       *State
	Res        *RunResult

	MaxSteps    int
	MaxPaths    int
	Fixed       map[string]interface{} // concrete values for named nondet inputs (concrete mode)
	Seed        int
	Progress    int
	ForkTrace   map[string]int
	forkSite    string
	onThreadEnd func(st *State, end string)
	Budget      time.Duration
	deadline    time.Time
	Debug       bool
	globals     map[*ssa.Global]*Ptr
	cutsets     map[*ssa.Function]*[128]bool
	rxCache     map[string]*rxProg
	uniqCache   map[string]bool
	sizes       types.Sizes
	fresh       int
	badPartial  bool // set by readerContent: the failing stream delivers part of its payload before it fails
}

func New(prog *ssa.Program, pkg *ssa.Package, solverName string, timeoutMs int) (*Exec, error) {
	c := sym.NewCtx()
	s, err := smt.New(solverName, c, timeoutMs)
	if err != nil {
		return nil, err
	}
	e := &Exec{C: c, S: s, Prog: prog, Pkg: pkg, fninfo: map[*ssa.Function]*fnInfo{},
		MaxSteps: 400000, MaxPaths: 40000,
		globals: map[*ssa.Global]*Ptr{}, cutsets: map[*ssa.Function]*[128]bool{},
		rxCache: map[string]*rxProg{}, uniqCache: map[string]bool{},
		sizes: types.SizesFor("gc", "amd64")}
	e.intr = buildIntrinsics()
	return e, nil
}

func (e *Exec) Close() { e.S.Close() }

func (e *Exec) info(fn *ssa.Function) *fnInfo {
	if fi, ok := e.fninfo[fn]; ok {
		return fi
	}
	fi := &fnInfo{slots: map[ssa.Value]int{}}
	for _, p := range fn.Params {
		fi.slots[p] = fi.n
		fi.n++
	}
	for _, fv := range fn.FreeVars {
		fi.slots[fv] = fi.n
		fi.n++
	}
	for _, b := range fn.Blocks {
		for _, in := range b.Instrs {
			if v, ok := in.(ssa.Value); ok {
				fi.slots[v] = fi.n
				fi.n++
			}
		}
	}
	e.fninfo[fn] = fi
	return fi
}

// ---------------------------------------------------------------- types

func (e *Exec) intWidth(t types.Type) (w int, signed bool, ok bool) {
	b, isB := t.Underlying().(*types.Basic)
	if !isB {
		return 0, false, false
	}
	switch b.Kind() {
	case types.Int, types.Int64, types.UntypedInt:
		return 64, true, true
	case types.Int32, types.UntypedRune:
		return 32, true, true
	case types.Int16:
		return 16, true, true
	case types.Int8:
		return 8, true, true
	case types.Uint, types.Uint64, types.Uintptr:
		return 64, false, true
	case types.Uint32:
		return 32, false, true
	case types.Uint16:
		return 16, false, true
	case types.Uint8:
		return 8, false, true
	}
	return 0, false, false
}

func isFloat(t types.Type) bool {
	b, ok := t.Underlying().(*types.Basic)
	return ok && (b.Info()&types.IsFloat) != 0
}

func isString(t types.Type) bool {
	b, ok := t.Underlying().(*types.Basic)
	return ok && (b.Info()&types.IsString) != 0
}

func isByteSlice(t types.Type) bool {
	s, ok := t.Underlying().(*types.Slice)
	if !ok {
		return false
	}
	b, ok := s.Elem().Underlying().(*types.Basic)
	return ok && b.Kind() == types.Uint8
}

func (e *Exec) zero(t types.Type) Value {
	switch u := t.Underlying().(type) {
	case *types.Basic:
		if u.Info()&types.IsBoolean != 0 {
			return e.C.False
		}
		if u.Info()&types.IsString != 0 {
			return e.ConcStr("")
		}
		if w, _, ok := e.intWidth(u); ok {
			return e.C.BV(0, w)
		}
		if u.Info()&types.IsFloat != 0 {
			return e.C.BV(0, 64)
		}
		if u.Kind() == types.UnsafePointer {
			return nilPtr
		}
		if u.Kind() == types.UntypedNil {
			return nilPtr
		}
		unsupportedf("zero value of basic type %s", t)
	case *types.Pointer:
		return nilPtr
	case *types.Slice:
		if isByteSlice(t) {
			return &Str{IsConc: true, Conc: "", Nil: true}
		}
		return &SliceV{}
	case *types.Map:
		return &MapRef{Obj: -1}
	case *types.Chan:
		return &ChanRef{Obj: -1}
	case *types.Signature:
		return nilClosure
	case *types.Interface:
		return nilIface
	case *types.Struct:
		f := make([]Value, u.NumFields())
		for i := range f {
			f[i] = e.zero(u.Field(i).Type())
		}
		return &StructV{F: f}
	case *types.Array:
		n := int(u.Len())
		el := make([]Value, n)
		if n > 0 {
			z := e.zero(u.Elem())
			for i := range el {
				el[i] = z
			}
		}
		return &ArrayV{E: el}
	case *types.Tuple:
		el := make([]Value, u.Len())
		for i := range el {
			el[i] = e.zero(u.At(i).Type())
		}
		return &TupleV{E: el}
	}
	unsupportedf("zero value of type %s", t)
	return nil
}

func (e *Exec) constVal(c *ssa.Const) Value {
	t := c.Type()
	if c.Value == nil {
		return e.zero(t)
	}
	switch u := t.Underlying().(type) {
	case *types.Basic:
		switch {
		case u.Info()&types.IsBoolean != 0:
			return e.C.Bool(constant.BoolVal(c.Value))
		case u.Info()&types.IsString != 0:
			return e.ConcStr(constant.StringVal(c.Value))
		case u.Info()&types.IsInteger != 0:
			w, _, _ := e.intWidth(u)
			if v, ok := constant.Int64Val(constant.ToInt(c.Value)); ok {
				return e.C.BV(uint64(v), w)
			}
			v, _ := constant.Uint64Val(constant.ToInt(c.Value))
			return e.C.BV(v, w)
		case u.Info()&types.IsFloat != 0:
			f, _ := constant.Float64Val(c.Value)
			th := f * 1000
			if th != float64(int64(th)) {
				unsupportedf("float constant %v not representable in thousandths", f)
			}
			return e.C.Int64(int64(th))
		}
	}
	unsupportedf("constant of type %s", t)
	return nil
}

// ---------------------------------------------------------------- operands

func (e *Exec) get(st *State, fr *Frame, v ssa.Value) Value {
	switch x := v.(type) {
	case *ssa.Const:
		return e.constVal(x)
	case *ssa.Global:
		return e.globalPtr(st, x)
	case *ssa.Function:
		return &Closure{Fn: x}
	case *ssa.Builtin:
		return x
	}
	slot, ok := fr.info.slots[v]
	if !ok {
		unsupportedf("no slot for %s in %s", v.Name(), fr.fn)
	}
	val := fr.env[slot]
	if val == nil {
		unsupportedf("use of undefined value %s in %s", v.Name(), fr.fn)
	}
	return val
}

func (e *Exec) set(fr *Frame, v ssa.Value, val Value) {
	fr.env[fr.info.slots[v]] = val
}

func (e *Exec) globalPtr(st *State, g *ssa.Global) *Ptr {
	if p, ok := e.globals[g]; ok && p.Obj < len(st.heap) {
		return p
	}
	// globals are allocated before any state is cloned (see InitState); a global
	// first seen later is allocated in the initial epoch as well.
	elem := g.Type().(*types.Pointer).Elem()
	p := st.alloc(e.zero(elem), elem, "global "+g.String())
	st.heap[p.Obj].Epoch = 0
	e.globals[g] = p
	return p
}

// ---------------------------------------------------------------- running

func (e *Exec) newFrame(fn *ssa.Function, args []Value, bind []Value) *Frame {
	if len(fn.Blocks) == 0 {
		unsupportedf("call of function without body: %s", fn)
	}
	fi := e.info(fn)
	fr := &Frame{fn: fn, info: fi, block: fn.Blocks[0], env: make([]Value, fi.n), retSlot: -1}
	if len(args) != len(fn.Params) {
		unsupportedf("arity mismatch calling %s: %d vs %d", fn, len(args), len(fn.Params))
	}
	for i, p := range fn.Params {
		fr.env[fi.slots[p]] = args[i]
	}
	if len(bind) != len(fn.FreeVars) {
		unsupportedf("free var mismatch calling %s", fn)
	}
	for i, fv := range fn.FreeVars {
		fr.env[fi.slots[fv]] = bind[i]
	}
	if e.Res != nil && fn.Pkg == e.Pkg {
		e.Res.Funcs[fnDisplay(fn)] = true
	}
	return fr
}

func fnDisplay(fn *ssa.Function) string {
	pos := fn.Pos()
	name := fn.String()
	name = strings.Replace(name, "github.com/emicklei/go-restful/v3.", "restful.", -1)
	name = strings.Replace(name, "github.com/emicklei/go-restful/v3", "restful", -1)
	if pos.IsValid() && fn.Prog != nil {
		p := fn.Prog.Fset.Position(pos)
		f := p.Filename
		if i := strings.LastIndex(f, "/"); i >= 0 {
			f = f[i+1:]
		}
		return fmt.Sprintf("%s (%s:%d)", name, f, p.Line)
	}
	return name
}

func NewRunResult() *RunResult {
	return &RunResult{Ends: map[string]int{}, Covers: map[string]int{}, CoverInputs: map[string]map[string]interface{}{},
		Funcs: map[string]bool{}, Intrinsics: map[string]bool{}, sampleLimit: 6, Notes: map[string]int{}, ScriptLimit: 2}
}

// InitState builds the initial state: package initialisers of go-restful run.
func (e *Exec) InitState() error {
	st := &State{extra: map[string]Value{}}
	st.setModel(sym.Model{})
	e.Res = NewRunResult()
	// allocate all globals of the target packages up front
	var pkgs []*ssa.Package
	for _, p := range e.Prog.AllPackages() {
		pkgs = append(pkgs, p)
	}
	sort.Slice(pkgs, func(i, j int) bool { return pkgs[i].Pkg.Path() < pkgs[j].Pkg.Path() })
	for _, p := range pkgs {
		var names []string
		for n := range p.Members {
			names = append(names, n)
		}
		sort.Strings(names)
		for _, n := range names {
			if g, ok := p.Members[n].(*ssa.Global); ok {
				if p == e.Pkg || strings.HasPrefix(p.Pkg.Path(), e.Pkg.Pkg.Path()) {
					e.globalPtr(st, g)
				}
			}
		}
	}
	var initErr error
	for _, p := range pkgs {
		if p != e.Pkg && !strings.HasPrefix(p.Pkg.Path(), e.Pkg.Pkg.Path()+"/") {
			continue
		}
		if p == e.Pkg {
			continue
		}
		if err := e.runInit(st, p); err != nil {
			initErr = err
		}
	}
	if err := e.runInit(st, e.Pkg); err != nil {
		initErr = err
	}
	st.epoch = 1
	e.init = st
	return initErr
}

func (e *Exec) runInit(st *State, p *ssa.Package) error {
	fn := p.Func("init")
	if fn == nil {
		return nil
	}
	var err error
	func() {
		defer func() {
			if r := recover(); r != nil {
				if u, ok := r.(unsupported); ok {
					err = fmt.Errorf("init of %s: %s", p.Pkg.Path(), u.msg)
					return
				}
				panic(r)
			}
		}()
		st.frames = []*Frame{e.newFrame(fn, nil, nil)}
		st.done = false
		end := e.runLoop(st, true)
		if end != EndReturn {
			err = fmt.Errorf("init of %s ended with %s", p.Pkg.Path(), end)
		}
	}()
	st.frames = nil
	st.done = false
	return err
}

// Run explores all paths of harness fn(args...) from the initial state.
func (e *Exec) Run(fn *ssa.Function, args []Value) *RunResult {
	e.Res = NewRunResult()
	st := e.init.Clone()
	st.setModel(sym.Model{})
	e.S.Reset()
	e.deadline = time.Time{}
	e.MaxPaths = 40000
	if e.Budget > 0 {
		e.deadline = time.Now().Add(e.Budget)
	}
	base := e.S.Level()
	e.S.Push()
	func() {
		defer func() {
			if r := recover(); r != nil {
				if u, ok := r.(unsupported); ok {
					e.Res.Inconclusive = append(e.Res.Inconclusive, "unsupported: "+u.msg)
					return
				}
				panic(r)
			}
		}()
		st.frames = []*Frame{e.newFrame(fn, args, nil)}
		e.explore(st, 0)
	}()
	e.S.PopTo(base)
	return e.Res
}

func (e *Exec) explore(st *State, depth int) {
	if depth > e.Res.MaxForkDepth {
		e.Res.MaxForkDepth = depth
	}
	var end string
	func() {
		defer func() {
			if r := recover(); r != nil {
				if u, ok := r.(unsupported); ok {
					end = EndUnsupported
					where := ""
					if len(st.frames) > 0 {
						fr := st.top()
						where = " in " + fr.fn.String()
						if fr.idx < len(fr.block.Instrs) {
							where += " at " + e.Prog.Fset.Position(fr.block.Instrs[fr.idx].Pos()).String()
						}
					}
					e.Res.Inconclusive = append(e.Res.Inconclusive, "unsupported: "+u.msg+where)
					return
				}
				panic(r)
			}
		}()
		end = e.runLoop(st, false)
	}()
	e.pathEnd(st, end)
}

func (e *Exec) pathEnd(st *State, end string) {
	if st.rec != nil {
		if e.onThreadEnd != nil {
			e.onThreadEnd(st, end)
		}
		return
	}
	r := e.Res
	r.Paths++
	r.Ends[end]++
	if e.Progress > 0 && r.Paths%e.Progress == 0 {
		fmt.Fprintf(os.Stderr, "progress: paths=%d queries=%d solve=%v terms=%d pc=%d\n", r.Paths, e.S.Stats.Queries, e.S.Stats.SolveTime, len(e.C.Terms), len(st.PC))
	}
	if end == EndLimit {
		r.Inconclusive = append(r.Inconclusive, "step limit reached (unwinding bound)")
	}
	if end == EndPanic {
		desc := "uncaught panic"
		if st.panicking != nil {
			desc = "uncaught panic: " + st.panicking.Desc
		}
		st.mayFail = true
		r.Violations = append(r.Violations, Violation{Msg: desc, Inputs: e.InputsUnder(st, e.pathModel(st)), PathTag: strings.Join(st.Tags, ",")})
	}
	if end == EndInfeasible {
		return
	}
	for _, c := range st.Covers {
		r.Covers[c]++
		if _, ok := r.CoverInputs[c]; !ok {
			r.CoverInputs[c] = e.InputsUnder(st, e.pathModel(st))
		}
	}
	if len(r.Samples) < r.sampleLimit || (end == EndReturn && r.Paths%17 == 0 && len(r.Samples) < 4*r.sampleLimit) {
		ev := e.pathModel(st)
		obs := map[string]interface{}{}
		for _, o := range st.Obs {
			obs[o.Key] = e.Concretize(st, o.Val, ev)
		}
		r.Samples = append(r.Samples, PathSample{Inputs: e.InputsUnder(st, ev), Obs: obs, End: end, Tags: append([]string(nil), st.Tags...), MayFail: st.mayFail})
	}
}

// pathModel asks the solver for a model of the path condition (cached on the
// state). Models are only fetched where a concrete witness is needed: z3's
// model construction costs ~60 ms here, a feasibility query ~3 ms.
func (e *Exec) pathModel(st *State) *sym.Evaluator {
	if st.ev != nil && st.evAt == len(st.PC) {
		return st.ev
	}
	if e.S.Check() == smt.Sat {
		if m, err := e.S.Model(); err == nil {
			st.setModel(m)
			st.evAt = len(st.PC)
			return st.ev
		}
	}
	e.Res.Inconclusive = append(e.Res.Inconclusive, "no model for a feasible path")
	st.setModel(sym.Model{})
	return st.ev
}

// InputsUnder renders the nondeterministic inputs of the path under a model.
func (e *Exec) InputsUnder(st *State, ev *sym.Evaluator) map[string]interface{} {
	m := map[string]interface{}{}
	for _, in := range st.Inputs {
		m[in.Name] = e.Concretize(st, in.Val, ev)
	}
	return m
}

// Concretize evaluates a value to a JSON-able Go value.
func (e *Exec) Concretize(st *State, v Value, ev *sym.Evaluator) interface{} {
	switch x := v.(type) {
	case *sym.Term:
		val := ev.Eval(x)
		if x.W == 0 {
			return val == 1
		}
		if x.W == 64 {
			return int64(val)
		}
		return int64(val)
	case *Str:
		return e.StrConcrete(x, ev)
	case *Iface:
		if x.T == nil {
			return nil
		}
		return e.Concretize(st, x.V, ev)
	case *SliceV:
		out := []interface{}{}
		for i := 0; i < x.Len; i++ {
			out = append(out, e.Concretize(st, st.load(x.Arr.sub(x.Off+i)), ev))
		}
		return out
	case *Ptr:
		if x.IsNil() {
			return nil
		}
		return "ptr:" + x.key()
	}
	return fmt.Sprintf("<%T>", v)
}

// assume adds t to the path condition; returns false when infeasible.
func (e *Exec) assume(st *State, t *sym.Term) bool {
	if t.IsTrue() {
		return true
	}
	if t.IsFalse() {
		return false
	}
	if v, ok := st.factOf(t); ok {
		return v
	}
	st.addPC(t)
	e.S.Assert(t)
	switch e.S.Check() {
	case smt.Sat:
		return true
	case smt.Unknown:
		e.Res.Inconclusive = append(e.Res.Inconclusive, "solver unknown on assume")
		return false
	}
	return false
}

// assumeTrusted adds a constraint that cannot make the path infeasible
// (bounds on fresh variables) without asking the solver.
func (e *Exec) assumeTrusted(st *State, t *sym.Term) {
	if t.IsTrue() {
		return
	}
	st.addPC(t)
	e.S.Assert(t)
}

// forkAlts explores every feasible alternative; all but the last feasible one
// on clones, the last one on st itself (the caller continues with st).
// Returns false if no alternative is feasible. exhaustive: the conditions
// cover every case, so the last candidate needs no query when all others are
// infeasible.
func (e *Exec) forkAlts(st *State, alts []Alt, depth int) bool {
	return e.forkAltsX(st, alts, true)
}

func (e *Exec) forkAltsX(st *State, alts []Alt, exhaustive bool) bool {
	if e.ForkTrace != nil && len(st.frames) > 0 {
		fr := st.top()
		pos := ""
		if fr.idx < len(fr.block.Instrs) {
			pos = e.Prog.Fset.Position(fr.block.Instrs[fr.idx].Pos()).String()
		}
		e.ForkTrace[fr.fn.String()+" "+pos]++
		e.forkSite = fr.fn.String() + " " + pos
	}
	if e.S.SlowMs > 0 && len(st.frames) > 0 {
		e.S.Tag = "fork in " + st.top().fn.Name()
	}
	var feas []int
	// candidates not ruled out syntactically
	var cand []int
	for i, a := range alts {
		if a.Cond.IsFalse() {
			continue
		}
		if v, ok := st.factOf(a.Cond); ok && !v {
			continue
		}
		cand = append(cand, i)
	}
	for k, i := range cand {
		a := alts[i]
		if v, ok := st.factOf(a.Cond); ok && v {
			feas = append(feas, i)
			continue
		}
		if exhaustive && k == len(cand)-1 && len(feas) == 0 {
			// the path is feasible and every other case is not
			feas = append(feas, i)
			continue
		}
		r := e.S.CheckWith(a.Cond)
		switch r {
		case smt.Sat:
			feas = append(feas, i)
		case smt.Unknown:
			e.Res.Inconclusive = append(e.Res.Inconclusive, "solver unknown on branch feasibility")
		default:
			if e.ForkTrace != nil {
				e.ForkTrace["UNSAT "+e.forkSite]++
			}
		}
	}
	if len(feas) == 0 {
		return false
	}
	for _, i := range feas[:len(feas)-1] {
		a := alts[i]
		st2 := st.Clone()
		st2.Forks++
		if a.Tag != "" {
			st2.Tags = append(st2.Tags, a.Tag)
		}
		e.S.Push()
		if !a.Cond.IsTrue() {
			st2.addPC(a.Cond)
			e.S.Assert(a.Cond)
		}
		func() {
			defer func() {
				if r := recover(); r != nil {
					if u, ok := r.(unsupported); ok {
						e.Res.Inconclusive = append(e.Res.Inconclusive, "unsupported: "+u.msg)
						e.pathEnd(st2, EndUnsupported)
						return
					}
					panic(r)
				}
			}()
			a.Apply(st2)
			if e.Res.Paths < e.MaxPaths {
				e.explore(st2, st2.Forks)
			} else {
				e.Res.Inconclusive = append(e.Res.Inconclusive, "path limit reached")
			}
		}()
		e.S.Pop()
	}
	a := alts[feas[len(feas)-1]]
	if !a.Cond.IsTrue() {
		st.addPC(a.Cond)
		e.S.Assert(a.Cond)
	}
	if a.Tag != "" {
		st.Tags = append(st.Tags, a.Tag)
	}
	a.Apply(st)
	return true
}

// runLoop steps st until the path ends. depth bookkeeping is done via st.Forks.
func (e *Exec) runLoop(st *State, isInit bool) string {
	for {
		if st.done {
			return st.extra["__end"].(*Str).Conc
		}
		if st.unwinding {
			if end := e.unwindStep(st); end != "" {
				return end
			}
			continue
		}
		if len(st.frames) == 0 {
			if st.sched != nil {
				// interleaved mode: the running thread has ended
				e.schedThreadEnd(st)
				continue
			}
			return EndReturn
		}
		if st.sched != nil && e.schedBoundary(st) {
			continue
		}
		st.steps++
		if st.steps > e.MaxSteps {
			return EndLimit
		}
		if st.steps%4096 == 0 && !e.deadline.IsZero() && time.Now().After(e.deadline) {
			e.Res.Inconclusive = append(e.Res.Inconclusive, "time budget of this configuration exhausted")
			e.MaxPaths = 0 // stop forking
			return EndLimit
		}
		fr := st.top()
		if fr.idx >= len(fr.block.Instrs) {
			unsupportedf("fell off block in %s", fr.fn)
		}
		in := fr.block.Instrs[fr.idx]
		if e.Debug {
			fmt.Fprintf(os.Stderr, "[%d] %s: %s\n", len(st.frames), fr.fn.Name(), in)
		}
		if end := e.step(st, fr, in); end != "" {
			return end
		}
	}
}

func (e *Exec) endPath(st *State, kind string) {
	st.done = true
	st.extra["__end"] = e.ConcStr(kind)
}

// startPanic begins unwinding with the given panic value.
func (e *Exec) startPanic(st *State, val Value, desc string) {
	st.panicking = &PanicV{Val: val, Desc: desc}
	st.unwinding = true
}

func (e *Exec) runtimePanic(st *State, desc string) {
	// a runtime error value: interface holding an opaque native
	e.startPanic(st, &Iface{T: runtimeErrorType, V: e.ConcStr("runtime error: " + desc)}, "runtime error: "+desc)
}

var runtimeErrorType = types.NewNamed(types.NewTypeName(token.NoPos, nil, "runtime.Error(model)", nil), types.Typ[types.String], nil)

func (e *Exec) unwindStep(st *State) string {
	if len(st.frames) == 0 {
		return EndPanic
	}
	fr := st.top()
	fr.unwound = true
	if n := len(fr.defers); n > 0 {
		d := fr.defers[n-1]
		fr.defers = fr.defers[:n-1]
		st.unwinding = false
		e.callDeferred(st, d)
		return ""
	}
	if st.panicking == nil {
		// recovered
		st.unwinding = false
		fr.unwound = false
		if fr.fn.Recover != nil {
			fr.prev = fr.block
			fr.block = fr.fn.Recover
			fr.idx = 0
			return ""
		}
		var res Value
		results := fr.fn.Signature.Results()
		switch results.Len() {
		case 0:
			res = nil
		case 1:
			res = e.zero(results.At(0).Type())
		default:
			res = e.zero(results)
		}
		e.doReturn(st, res)
		return ""
	}
	st.frames = st.frames[:len(st.frames)-1]
	if len(st.frames) == 0 {
		return EndPanic
	}
	return ""
}

func (e *Exec) callDeferred(st *State, d deferred) {
	if d.bi != nil {
		// deferred builtin (e.g. close, delete): run inline
		e.builtin(st, nil, d.bi, d.args, nil)
		if len(st.frames) > 0 && st.top().unwound {
			st.unwinding = true
		}
		return
	}
	cl := d.fn.(*Closure)
	if cl.Fn == nil {
		e.runtimePanic(st, "invalid memory address or nil pointer dereference (nil deferred func)")
		return
	}
	if h, ok := e.intr[cl.Fn.String()]; ok {
		e.Res.Intrinsics[cl.Fn.String()] = true
		out := h(e, st, &CallInfo{Fn: cl.Fn, Args: append(append([]Value{}, cl.Bind...), d.args...), deferredCall: true})
		e.finishIntrinsic(st, nil, nil, out, true)
		return
	}
	nf := e.newFrame(cl.Fn, d.args, cl.Bind)
	nf.isDefer = true
	st.frames = append(st.frames, nf)
}

// doReturn pops the top frame and delivers res to the caller.
func (e *Exec) doReturn(st *State, res Value) {
	fr := st.top()
	st.frames = st.frames[:len(st.frames)-1]
	if fr.onReturn != nil {
		res = fr.onReturn(st, res)
	}
	if len(st.frames) == 0 {
		return
	}
	caller := st.top()
	if fr.isDefer {
		if caller.unwound {
			st.unwinding = true
		}
		// else: caller re-executes its RunDefers instruction
		return
	}
	if fr.retSlot >= 0 {
		caller.env[fr.retSlot] = res
	}
	if fr.advance {
		caller.idx++
	}
}

func (e *Exec) jump(fr *Frame, to *ssa.BasicBlock) {
	fr.prev = fr.block
	fr.block = to
	fr.idx = 0
}

// step executes one instruction. Returns a non-empty end kind to stop.
func (e *Exec) step(st *State, fr *Frame, in ssa.Instruction) string {
	c := e.C
	switch x := in.(type) {
	case *ssa.DebugRef:
		fr.idx++
	case *ssa.Phi:
		// evaluate all phis of the block simultaneously
		blk := fr.block
		pi := -1
		for i, p := range blk.Preds {
			if p == fr.prev {
				pi = i
				break
			}
		}
		if pi < 0 {
			unsupportedf("phi without matching predecessor in %s", fr.fn)
		}
		var vals []Value
		j := fr.idx
		for j < len(blk.Instrs) {
			ph, ok := blk.Instrs[j].(*ssa.Phi)
			if !ok {
				break
			}
			vals = append(vals, e.get(st, fr, ph.Edges[pi]))
			j++
		}
		for k, v := range vals {
			e.set(fr, blk.Instrs[fr.idx+k].(*ssa.Phi), v)
		}
		fr.idx = j
	case *ssa.Jump:
		e.jump(fr, fr.block.Succs[0])
	case *ssa.If:
		cond := e.get(st, fr, x.Cond).(*sym.Term)
		if cond.IsTrue() {
			e.jump(fr, fr.block.Succs[0])
		} else if cond.IsFalse() {
			e.jump(fr, fr.block.Succs[1])
		} else {
			t, f := fr.block.Succs[0], fr.block.Succs[1]
			ok := e.forkAlts(st, []Alt{
				{Cond: cond, Apply: func(s *State) { e.jump(s.top(), t) }},
				{Cond: c.Not(cond), Apply: func(s *State) { e.jump(s.top(), f) }},
			}, st.Forks)
			if !ok {
				return EndInfeasible
			}
		}
	case *ssa.Return:
		var res Value
		switch len(x.Results) {
		case 0:
		case 1:
			res = e.get(st, fr, x.Results[0])
		default:
			el := make([]Value, len(x.Results))
			for i, r := range x.Results {
				el[i] = e.get(st, fr, r)
			}
			res = &TupleV{E: el}
		}
		e.doReturn(st, res)
	case *ssa.RunDefers:
		if n := len(fr.defers); n > 0 {
			d := fr.defers[n-1]
			fr.defers = fr.defers[:n-1]
			e.callDeferred(st, d)
		} else {
			fr.idx++
		}
	case *ssa.Panic:
		v := e.get(st, fr, x.X)
		e.startPanic(st, v, "panic("+e.describePanic(st, v)+")")
	case *ssa.Defer:
		d := e.prepareCall(st, fr, &x.Call)
		fr.defers = append(fr.defers, d)
		fr.idx++
	case *ssa.Go:
		unsupportedf("go statement in %s", fr.fn)
	case *ssa.Call:
		return e.call(st, fr, x)
	case *ssa.Store:
		addr := e.get(st, fr, x.Addr)
		val := e.get(st, fr, x.Val)
		p, ok := addr.(*Ptr)
		if !ok {
			unsupportedf("store through %T", addr)
		}
		if p.IsNil() {
			e.runtimePanic(st, "invalid memory address or nil pointer dereference")
			return ""
		}
		e.monitorStore(st, p, fr, in)
		e.recAccess(st, p, true, fr, in)
		st.store(p, val)
		fr.idx++
	case *ssa.MapUpdate:
		m := e.get(st, fr, x.Map).(*MapRef)
		k := e.get(st, fr, x.Key)
		v := e.get(st, fr, x.Value)
		if m.Obj < 0 {
			e.runtimePanic(st, "assignment to entry in nil map")
			return ""
		}
		e.monitorStore(st, &Ptr{Obj: m.Obj}, fr, in)
		e.recAccess(st, &Ptr{Obj: m.Obj}, true, fr, in)
		if alts := e.mapUpdateAlts(st, m, k, v); alts != nil {
			e.forkAlts(st, alts, st.Forks)
			return ""
		}
		e.mapUpdate(st, m, k, v)
		fr.idx++
	case *ssa.Send:
		ch := e.get(st, fr, x.Chan).(*ChanRef)
		v := e.get(st, fr, x.X)
		if ch.Obj < 0 {
			e.endPath(st, "blocked")
			e.Res.Notes["blocked forever: send on nil channel"]++
			return ""
		}
		if e.sharedChan(st, ch) {
			e.recChan(st, EvSend, ch, nil, e.instrPos(fr, in))
			fr.idx++
			return ""
		}
		cv := st.heap[ch.Obj].V.(*ChanV)
		if cv.Closed {
			e.runtimePanic(st, "send on closed channel")
			return ""
		}
		if len(cv.Q) >= cv.Cap && st.sched != nil {
			// interleaved mode: another thread may make room
			e.schedBlockOnChan(st)
			return ""
		}
		if len(cv.Q) >= cv.Cap {
			// sequential execution: nobody will ever receive
			st.Covers = append(st.Covers, "blocked-send")
			e.startPanic(st, &Iface{T: runtimeErrorType, V: e.ConcStr("blocked forever on channel send")}, "blocked forever on channel send")
			return ""
		}
		nq := append(append([]Value{}, cv.Q...), v)
		st.setObj(ch.Obj, &ChanV{Q: nq, Cap: cv.Cap})
		e.schedChanOp(st)
		fr.idx++
	default:
		v, ok := in.(ssa.Value)
		if !ok {
			unsupportedf("instruction %T", in)
		}
		res, handled := e.evalValue(st, fr, v)
		if handled {
			return ""
		}
		e.set(fr, v, res)
		fr.idx++
	}
	return ""
}

func (e *Exec) describePanic(st *State, v Value) string {
	if ifc, ok := v.(*Iface); ok && ifc.T != nil {
		if s, ok := ifc.V.(*Str); ok && s.IsConc {
			return s.Conc
		}
		return ifc.T.String()
	}
	return "?"
}

// monitorStore implements the frame monitor of DESIGN 2.7.
func (e *Exec) monitorStore(st *State, p *Ptr, fr *Frame, in ssa.Instruction) {
	fm := st.frameMon
	if fm == nil {
		return
	}
	o := st.heap[p.Obj]
	if o.Epoch >= fm.epoch || fm.owned[p.Obj] || fm.allowed[p.Obj] {
		return
	}
	pos := e.Prog.Fset.Position(in.Pos())
	msg := fmt.Sprintf("frame[%s]: store to pre-existing object (%s) at %s in %s", fm.label, o.Site, pos, fr.fn)
	st.mayFail = true
	e.Res.Violations = append(e.Res.Violations, Violation{Msg: msg, Inputs: e.InputsUnder(st, e.pathModel(st)), PathTag: strings.Join(st.Tags, ",")})
}

// evalValue computes value-producing instructions. handled=true means the
// instruction managed control itself (fork/panic) and the result is set.
func (e *Exec) evalValue(st *State, fr *Frame, v ssa.Value) (Value, bool) {
	c := e.C
	switch x := v.(type) {
	case *ssa.Alloc:
		elem := x.Type().(*types.Pointer).Elem()
		site := "alloc"
		if x.Pos().IsValid() {
			site = e.Prog.Fset.Position(x.Pos()).String()
		} else {
			site = "alloc in " + fr.fn.String()
		}
		return st.alloc(e.zero(elem), elem, site), false
	case *ssa.UnOp:
		return e.unop(st, fr, x)
	case *ssa.BinOp:
		return e.binop(st, fr, x)
	case *ssa.FieldAddr:
		p := e.get(st, fr, x.X).(*Ptr)
		if p.IsNil() {
			e.runtimePanic(st, "invalid memory address or nil pointer dereference")
			return nil, true
		}
		return p.sub(x.Field), false
	case *ssa.Field:
		s := e.get(st, fr, x.X).(*StructV)
		return s.F[x.Field], false
	case *ssa.IndexAddr:
		return e.indexAddr(st, fr, x)
	case *ssa.Index:
		return e.index(st, fr, x)
	case *ssa.Lookup:
		return e.lookup(st, fr, x)
	case *ssa.Slice:
		return e.sliceOp(st, fr, x)
	case *ssa.MakeMap:
		p := st.alloc(&MapV{}, x.Type(), "makemap")
		return &MapRef{Obj: p.Obj}, false
	case *ssa.MakeChan:
		sz := e.get(st, fr, x.Size).(*sym.Term)
		n, ok := sz.ConstVal()
		if !ok {
			unsupportedf("make(chan) with symbolic size")
		}
		p := st.alloc(&ChanV{Cap: int(n)}, x.Type(), "makechan")
		return &ChanRef{Obj: p.Obj}, false
	case *ssa.MakeSlice:
		ln := e.get(st, fr, x.Len).(*sym.Term)
		cp := e.get(st, fr, x.Cap).(*sym.Term)
		lv, ok1 := ln.ConstVal()
		cv, ok2 := cp.ConstVal()
		if !ok1 || !ok2 {
			unsupportedf("make(slice) with symbolic size in %s", fr.fn)
		}
		if isByteSlice(x.Type()) {
			return e.ConcStr(string(make([]byte, lv))), false
		}
		elem := x.Type().Underlying().(*types.Slice).Elem()
		arr := make([]Value, cv)
		z := e.zero(elem)
		for i := range arr {
			arr[i] = z
		}
		p := st.alloc(&ArrayV{E: arr}, types.NewArray(elem, int64(cv)), "makeslice in "+fr.fn.String())
		return &SliceV{Arr: p, Off: 0, Len: int(lv), Cap: int(cv)}, false
	case *ssa.MakeClosure:
		fn := x.Fn.(*ssa.Function)
		bind := make([]Value, len(x.Bindings))
		for i, b := range x.Bindings {
			bind[i] = e.get(st, fr, b)
		}
		return &Closure{Fn: fn, Bind: bind}, false
	case *ssa.MakeInterface:
		return &Iface{T: x.X.Type(), V: e.get(st, fr, x.X)}, false
	case *ssa.ChangeInterface:
		return e.get(st, fr, x.X), false
	case *ssa.ChangeType:
		return e.get(st, fr, x.X), false
	case *ssa.Convert:
		return e.convert(st, fr, x), false
	case *ssa.SliceToArrayPointer:
		unsupportedf("SliceToArrayPointer")
	case *ssa.TypeAssert:
		return e.typeAssert(st, fr, x)
	case *ssa.Extract:
		t := e.get(st, fr, x.Tuple).(*TupleV)
		return t.E[x.Index], false
	case *ssa.Range:
		return e.rangeOp(st, fr, x)
	case *ssa.Next:
		return e.next(st, fr, x), false
	case *ssa.Select:
		return e.selectOp(st, fr, x)
	}
	_ = c
	unsupportedf("instruction %T in %s", v, fr.fn)
	return nil, false
}

// ---------------------------------------------------------------- unop/binop

func (e *Exec) unop(st *State, fr *Frame, x *ssa.UnOp) (Value, bool) {
	c := e.C
	v := e.get(st, fr, x.X)
	switch x.Op {
	case token.MUL: // load
		switch p := v.(type) {
		case *Ptr:
			if p.IsNil() {
				e.runtimePanic(st, "invalid memory address or nil pointer dereference")
				return nil, true
			}
			e.recAccess(st, p, false, fr, x)
			return st.load(p), false
		case *BytePtr:
			return e.atT(p.S, p.Idx), false
		}
		unsupportedf("load through %T (%s) in %s", v, x.X.Type(), fr.fn)
	case token.NOT:
		return c.Not(v.(*sym.Term)), false
	case token.SUB:
		return c.Neg(v.(*sym.Term)), false
	case token.XOR:
		return c.BvNot(v.(*sym.Term)), false
	case token.ARROW:
		ch := v.(*ChanRef)
		if ch.Obj < 0 {
			unsupportedf("receive from nil channel")
		}
		if e.sharedChan(st, ch) {
			e.recChan(st, EvRecv, ch, nil, e.instrPos(fr, x))
			z := e.pooledObject(st, x.X.Type().Underlying().(*types.Chan).Elem())
			if x.CommaOk {
				return &TupleV{E: []Value{z, c.True}}, false
			}
			return z, false
		}
		cv := st.heap[ch.Obj].V.(*ChanV)
		if len(cv.Q) == 0 {
			if cv.Closed {
				z := e.zero(x.X.Type().Underlying().(*types.Chan).Elem())
				if x.CommaOk {
					return &TupleV{E: []Value{z, c.False}}, false
				}
				return z, false
			}
			if st.sched != nil {
				// interleaved mode: another thread may send
				e.schedBlockOnChan(st)
				return nil, true
			}
			st.Covers = append(st.Covers, "blocked-recv")
			e.startPanic(st, &Iface{T: runtimeErrorType, V: e.ConcStr("blocked forever on channel receive")}, "blocked forever on channel receive")
			return nil, true
		}
		val := cv.Q[0]
		st.setObj(ch.Obj, &ChanV{Q: append([]Value{}, cv.Q[1:]...), Cap: cv.Cap, Closed: cv.Closed})
		e.schedChanOp(st)
		if x.CommaOk {
			return &TupleV{E: []Value{val, c.True}}, false
		}
		return val, false
	}
	unsupportedf("unop %s", x.Op)
	return nil, false
}

func (e *Exec) isNilValue(v Value) (bool, bool) {
	switch x := v.(type) {
	case *Ptr:
		return x.IsNil(), true
	case *SliceV:
		return x.Arr == nil, true
	case *MapRef:
		return x.Obj < 0, true
	case *ChanRef:
		return x.Obj < 0, true
	case *Closure:
		return x.Fn == nil, true
	case *Iface:
		return x.T == nil, true
	case *Str:
		return x.Nil, true
	case *Native:
		return x.V == nil, true
	}
	return false, false
}

// valuesEqual compares two values of the same static type; result is a term.
func (e *Exec) valuesEqual(a, b Value) *sym.Term {
	c := e.C
	switch x := a.(type) {
	case *sym.Term:
		return c.Eq(x, b.(*sym.Term))
	case *Str:
		y, ok := b.(*Str)
		if !ok {
			return c.False
		}
		if x.Nil || y.Nil { // []byte compared with nil
			return c.Bool(x.Nil == y.Nil)
		}
		return e.StrEq(x, y)
	case *Ptr:
		y, ok := b.(*Ptr)
		if !ok {
			return c.False
		}
		return c.Bool(ptrEq(x, y))
	case *Native:
		y, ok := b.(*Native)
		return c.Bool(ok && x.V == y.V)
	case *Iface:
		y, ok := b.(*Iface)
		if !ok {
			unsupportedf("compare iface with %T", b)
		}
		if x.T == nil || y.T == nil {
			return c.Bool(x.T == nil && y.T == nil)
		}
		if !types.Identical(x.T, y.T) {
			return c.False
		}
		return e.valuesEqual(x.V, y.V)
	case *StructV:
		y := b.(*StructV)
		conj := []*sym.Term{}
		for i := range x.F {
			conj = append(conj, e.valuesEqual(x.F[i], y.F[i]))
		}
		return c.And(conj...)
	case *ArrayV:
		y := b.(*ArrayV)
		conj := []*sym.Term{}
		for i := range x.E {
			conj = append(conj, e.valuesEqual(x.E[i], y.E[i]))
		}
		return c.And(conj...)
	case *MapRef:
		y := b.(*MapRef)
		return c.Bool(x.Obj == y.Obj)
	case *ChanRef:
		y := b.(*ChanRef)
		return c.Bool(x.Obj == y.Obj)
	case *SliceV:
		y := b.(*SliceV)
		if x.Arr == nil || y.Arr == nil {
			return c.Bool(x.Arr == nil && y.Arr == nil)
		}
		unsupportedf("slice comparison")
	case *Closure:
		y := b.(*Closure)
		if x.Fn == nil || y.Fn == nil {
			return c.Bool(x.Fn == nil && y.Fn == nil)
		}
		unsupportedf("func comparison")
	}
	unsupportedf("comparison of %T", a)
	return nil
}

func (e *Exec) binop(st *State, fr *Frame, x *ssa.BinOp) (Value, bool) {
	c := e.C
	a := e.get(st, fr, x.X)
	b := e.get(st, fr, x.Y)
	t := x.X.Type()
	switch x.Op {
	case token.EQL:
		return e.valuesEqual(a, b), false
	case token.NEQ:
		return c.Not(e.valuesEqual(a, b)), false
	}
	if sa, ok := a.(*Str); ok {
		sb := b.(*Str)
		switch x.Op {
		case token.ADD:
			return e.Concat(sa, sb), false
		case token.LSS:
			return e.StrLt(sa, sb), false
		case token.GTR:
			return e.StrLt(sb, sa), false
		case token.LEQ:
			return c.Not(e.StrLt(sb, sa)), false
		case token.GEQ:
			return c.Not(e.StrLt(sa, sb)), false
		}
		unsupportedf("string binop %s", x.Op)
	}
	ta, ok := a.(*sym.Term)
	if !ok {
		unsupportedf("binop %s on %T", x.Op, a)
	}
	tb := b.(*sym.Term)
	if ta.W == 0 {
		switch x.Op {
		case token.AND, token.LAND:
			return c.And(ta, tb), false
		case token.OR, token.LOR:
			return c.Or(ta, tb), false
		}
		unsupportedf("bool binop %s", x.Op)
	}
	signed := true
	if isFloat(t) {
		switch x.Op {
		case token.LSS, token.GTR, token.LEQ, token.GEQ:
		default:
			unsupportedf("float arithmetic %s in %s", x.Op, fr.fn)
		}
	} else {
		_, sg, ok := e.intWidth(t)
		if !ok {
			unsupportedf("binop on type %s", t)
		}
		signed = sg
	}
	// shifts: widths may differ
	if x.Op == token.SHL || x.Op == token.SHR {
		if tb.W < ta.W {
			tb = c.Zext(tb, ta.W)
		} else if tb.W > ta.W {
			// large shift counts saturate
			big := c.Uge(tb, c.BV(uint64(ta.W), tb.W))
			tb = c.Ite(big, c.BV(uint64(ta.W), ta.W), c.Trunc(tb, ta.W))
		}
		if x.Op == token.SHL {
			return c.Shl(ta, tb), false
		}
		if signed {
			return c.Ashr(ta, tb), false
		}
		return c.Lshr(ta, tb), false
	}
	switch x.Op {
	case token.ADD:
		return c.Add(ta, tb), false
	case token.SUB:
		return c.Sub(ta, tb), false
	case token.MUL:
		return c.Mul(ta, tb), false
	case token.QUO, token.REM:
		if tb.IsConst() {
			if v, _ := tb.ConstVal(); v == 0 {
				e.runtimePanic(st, "integer divide by zero")
				return nil, true
			}
		} else {
			unsupportedf("division by symbolic value")
		}
		if x.Op == token.QUO {
			if signed {
				return c.Sdiv(ta, tb), false
			}
			return c.Udiv(ta, tb), false
		}
		if signed {
			return c.Srem(ta, tb), false
		}
		return c.Urem(ta, tb), false
	case token.AND:
		return c.BvAnd(ta, tb), false
	case token.OR:
		return c.BvOr(ta, tb), false
	case token.XOR:
		return c.BvXor(ta, tb), false
	case token.AND_NOT:
		return c.BvAnd(ta, c.BvNot(tb)), false
	case token.LSS:
		if signed {
			return c.Slt(ta, tb), false
		}
		return c.Ult(ta, tb), false
	case token.LEQ:
		if signed {
			return c.Sle(ta, tb), false
		}
		return c.Ule(ta, tb), false
	case token.GTR:
		if signed {
			return c.Sgt(ta, tb), false
		}
		return c.Ugt(ta, tb), false
	case token.GEQ:
		if signed {
			return c.Sge(ta, tb), false
		}
		return c.Uge(ta, tb), false
	}
	unsupportedf("binop %s", x.Op)
	return nil, false
}

func (e *Exec) convert(st *State, fr *Frame, x *ssa.Convert) Value {
	c := e.C
	v := e.get(st, fr, x.X)
	from, to := x.X.Type(), x.Type()
	if s, ok := v.(*Str); ok {
		if isString(to) || isByteSlice(to) {
			if s.Nil {
				return e.ConcStr("")
			}
			return s
		}
		unsupportedf("convert string to %s", to)
	}
	if t, ok := v.(*sym.Term); ok {
		if isString(to) {
			if cv, ok := t.ConstVal(); ok {
				return e.ConcStr(string(rune(cv)))
			}
			unsupportedf("string(symbolic rune)")
		}
		fw, fs, fok := e.intWidth(from)
		tw, _, tok := e.intWidth(to)
		if fok && tok {
			if tw == fw {
				return t
			}
			if tw < fw {
				return c.Trunc(t, tw)
			}
			if fs {
				return c.Sext(t, tw)
			}
			return c.Zext(t, tw)
		}
		if fok && isFloat(to) {
			if cv, ok := t.ConstVal(); ok {
				return c.Int64(int64(cv) * 1000)
			}
			unsupportedf("int to float of symbolic")
		}
		if isFloat(from) && isFloat(to) {
			return t
		}
		if _, ok := to.Underlying().(*types.Basic); ok && to.Underlying().(*types.Basic).Kind() == types.UnsafePointer {
			unsupportedf("convert to unsafe.Pointer")
		}
	}
	if p, ok := v.(*Ptr); ok {
		// unsafe.Pointer <-> *T
		return p
	}
	unsupportedf("convert %s -> %s", from, to)
	return nil
}

// BytePtr addresses one byte of an immutable byte string (read-only).
type BytePtr struct {
	S   *Str
	Idx *sym.Term
}

func (e *Exec) boundsFork(st *State, fr *Frame, inRange *sym.Term, desc string, apply func(s *State)) bool {
	// returns true if handled via fork (control taken over)
	if inRange.IsTrue() {
		return false
	}
	if inRange.IsFalse() {
		e.runtimePanic(st, desc)
		return true
	}
	ok := e.forkAlts(st, []Alt{
		{Cond: inRange, Apply: apply},
		{Cond: e.C.Not(inRange), Apply: func(s *State) { e.runtimePanic(s, desc) }, Tag: "panic:" + desc},
	}, st.Forks)
	if !ok {
		e.endPath(st, EndInfeasible)
	}
	return true
}

func (e *Exec) indexAddr(st *State, fr *Frame, x *ssa.IndexAddr) (Value, bool) {
	c := e.C
	base := e.get(st, fr, x.X)
	idx := e.get(st, fr, x.Index).(*sym.Term)
	if idx.W < 64 {
		_, sg, _ := e.intWidth(x.Index.Type())
		if sg {
			idx = c.Sext(idx, 64)
		} else {
			idx = c.Zext(idx, 64)
		}
	}
	switch b := base.(type) {
	case *Str:
		inRange := c.And(c.Sle(e.i64(0), idx), c.Slt(idx, e.lenOf(b)))
		res := &BytePtr{S: b, Idx: idx}
		if e.boundsFork(st, fr, inRange, "index out of range", func(s *State) {
			f := s.top()
			e.set(f, x, res)
			f.idx++
		}) {
			return nil, true
		}
		return res, false
	case *SliceV:
		iv, ok := idx.ConstVal()
		if !ok {
			unsupportedf("symbolic slice index in %s", fr.fn)
		}
		if int64(iv) < 0 || int(iv) >= b.Len {
			e.runtimePanic(st, fmt.Sprintf("index out of range [%d] with length %d", int64(iv), b.Len))
			return nil, true
		}
		return b.Arr.sub(b.Off + int(iv)), false
	case *Ptr: // pointer to array
		if b.IsNil() {
			e.runtimePanic(st, "invalid memory address or nil pointer dereference")
			return nil, true
		}
		iv, ok := idx.ConstVal()
		if !ok {
			unsupportedf("symbolic array index in %s", fr.fn)
		}
		arr := st.load(b).(*ArrayV)
		if int64(iv) < 0 || int(iv) >= len(arr.E) {
			e.runtimePanic(st, "index out of range")
			return nil, true
		}
		return b.sub(int(iv)), false
	}
	unsupportedf("IndexAddr on %T", base)
	return nil, false
}

func (e *Exec) index(st *State, fr *Frame, x *ssa.Index) (Value, bool) {
	base := e.get(st, fr, x.X)
	idx := e.get(st, fr, x.Index).(*sym.Term)
	switch b := base.(type) {
	case *Str:
		if idx.W < 64 {
			_, sg, _ := e.intWidth(x.Index.Type())
			if sg {
				idx = e.C.Sext(idx, 64)
			} else {
				idx = e.C.Zext(idx, 64)
			}
		}
		inRange := e.C.And(e.C.Sle(e.i64(0), idx), e.C.Slt(idx, e.lenOf(b)))
		res := e.atT(b, idx)
		if e.boundsFork(st, fr, inRange, "index out of range", func(s2 *State) {
			f := s2.top()
			e.set(f, x, res)
			f.idx++
		}) {
			return nil, true
		}
		return res, false
	case *ArrayV:
		iv, ok := idx.ConstVal()
		if !ok {
			unsupportedf("symbolic array index")
		}
		if int64(iv) < 0 || int(iv) >= len(b.E) {
			e.runtimePanic(st, "index out of range")
			return nil, true
		}
		return b.E[iv], false
	}
	unsupportedf("Index on %T", base)
	return nil, false
}

func (e *Exec) keyEq(a, b Value) *sym.Term {
	return e.valuesEqual(a, b)
}

// mapUpdateAlts: an update whose key may or may not equal existing keys forks into one alternative per
// possibly-equal entry plus one for a new entry. nil when the plain update decides.
func (e *Exec) mapUpdateAlts(st *State, m *MapRef, k, v Value) []Alt {
	mv := st.heap[m.Obj].V.(*MapV)
	symbolic := false
	for _, kk := range mv.K {
		eq := e.keyEq(kk, k)
		if eq.IsTrue() {
			return nil
		}
		if !eq.IsFalse() {
			symbolic = true
		}
	}
	if !symbolic {
		return nil
	}
	var alts []Alt
	var none []*sym.Term
	for i, kk := range mv.K {
		i := i
		eq := e.keyEq(kk, k)
		if eq.IsFalse() {
			continue
		}
		none = append(none, e.C.Not(eq))
		alts = append(alts, Alt{Cond: eq, Tag: fmt.Sprintf("mapkey=%d", i), Apply: func(s *State) {
			cur := s.heap[m.Obj].V.(*MapV)
			nv := append([]Value{}, cur.V...)
			nv[i] = v
			s.setObj(m.Obj, &MapV{K: cur.K, V: nv})
			s.top().idx++
		}})
	}
	alts = append(alts, Alt{Cond: e.C.And(none...), Tag: "mapkey=new", Apply: func(s *State) {
		cur := s.heap[m.Obj].V.(*MapV)
		nk := append(append([]Value{}, cur.K...), k)
		nv := append(append([]Value{}, cur.V...), v)
		s.setObj(m.Obj, &MapV{K: nk, V: nv})
		s.top().idx++
	}})
	return alts
}

func (e *Exec) mapUpdate(st *State, m *MapRef, k, v Value) {
	mv := st.heap[m.Obj].V.(*MapV)
	for i, kk := range mv.K {
		eq := e.keyEq(kk, k)
		if eq.IsTrue() {
			nv := append([]Value{}, mv.V...)
			nv[i] = v
			st.setObj(m.Obj, &MapV{K: mv.K, V: nv})
			return
		}
		if !eq.IsFalse() {
			unsupportedf("map update with symbolic key")
		}
	}
	nk := append(append([]Value{}, mv.K...), k)
	nv := append(append([]Value{}, mv.V...), v)
	st.setObj(m.Obj, &MapV{K: nk, V: nv})
}

func (e *Exec) lookup(st *State, fr *Frame, x *ssa.Lookup) (Value, bool) {
	c := e.C
	base := e.get(st, fr, x.X)
	if s, ok := base.(*Str); ok {
		idx := e.get(st, fr, x.Index).(*sym.Term)
		if idx.W < 64 {
			idx = c.Sext(idx, 64)
		}
		inRange := c.And(c.Sle(e.i64(0), idx), c.Slt(idx, e.lenOf(s)))
		res := e.atT(s, idx)
		if e.boundsFork(st, fr, inRange, "index out of range", func(s2 *State) {
			f := s2.top()
			e.set(f, x, res)
			f.idx++
		}) {
			return nil, true
		}
		return res, false
	}
	m := base.(*MapRef)
	k := e.get(st, fr, x.Index)
	elemT := x.X.Type().Underlying().(*types.Map).Elem()
	zero := e.zero(elemT)
	mk := func(v Value, ok bool) Value {
		if x.CommaOk {
			return &TupleV{E: []Value{v, c.Bool(ok)}}
		}
		return v
	}
	if m.Obj < 0 {
		return mk(zero, false), false
	}
	e.recAccess(st, &Ptr{Obj: m.Obj}, false, fr, x)
	mv := st.heap[m.Obj].V.(*MapV)
	var alts []Alt
	var noneConj []*sym.Term
	for i, kk := range mv.K {
		eq := e.keyEq(kk, k)
		if eq.IsTrue() {
			if len(alts) == 0 {
				return mk(mv.V[i], true), false
			}
		}
		if eq.IsFalse() {
			continue
		}
		val := mv.V[i]
		alts = append(alts, Alt{Cond: c.And(append([]*sym.Term{eq}, noneConj...)...), Apply: func(s *State) {
			f := s.top()
			e.set(f, x, mk(val, true))
			f.idx++
		}})
		noneConj = append(noneConj, c.Not(eq))
		if eq.IsTrue() {
			break
		}
	}
	if len(alts) == 0 {
		return mk(zero, false), false
	}
	alts = append(alts, Alt{Cond: c.And(noneConj...), Apply: func(s *State) {
		f := s.top()
		e.set(f, x, mk(zero, false))
		f.idx++
	}})
	if !e.forkAlts(st, alts, st.Forks) {
		e.endPath(st, EndInfeasible)
	}
	return nil, true
}

func (e *Exec) sliceOp(st *State, fr *Frame, x *ssa.Slice) (Value, bool) {
	c := e.C
	base := e.get(st, fr, x.X)
	getI := func(v ssa.Value) *sym.Term {
		if v == nil {
			return nil
		}
		t := e.get(st, fr, v).(*sym.Term)
		if t.W < 64 {
			t = c.Sext(t, 64)
		}
		return t
	}
	lo, hi, mx := getI(x.Low), getI(x.High), getI(x.Max)
	switch b := base.(type) {
	case *Str:
		if mx != nil {
			unsupportedf("3-index slice of bytes")
		}
		if lo == nil {
			lo = e.i64(0)
		}
		if hi == nil {
			hi = e.lenOf(b)
		}
		inRange := c.And(c.Sle(e.i64(0), lo), c.Sle(lo, hi), c.Sle(hi, e.lenOf(b)))
		res := e.StrSlice(b, lo, hi)
		if e.boundsFork(st, fr, inRange, "slice bounds out of range", func(s *State) {
			f := s.top()
			e.set(f, x, res)
			f.idx++
		}) {
			return nil, true
		}
		return res, false
	case *SliceV:
		l, h, m := 0, b.Len, b.Cap
		if lo != nil {
			v, ok := lo.ConstVal()
			if !ok {
				unsupportedf("symbolic slice bound")
			}
			l = int(int64(v))
		}
		if hi != nil {
			v, ok := hi.ConstVal()
			if !ok {
				unsupportedf("symbolic slice bound")
			}
			h = int(int64(v))
		}
		if mx != nil {
			v, ok := mx.ConstVal()
			if !ok {
				unsupportedf("symbolic slice bound")
			}
			m = int(int64(v))
		}
		if l < 0 || l > h || h > m || m > b.Cap {
			e.runtimePanic(st, fmt.Sprintf("slice bounds out of range [%d:%d:%d] with capacity %d", l, h, m, b.Cap))
			return nil, true
		}
		if b.Arr == nil {
			return &SliceV{}, false
		}
		return &SliceV{Arr: b.Arr, Off: b.Off + l, Len: h - l, Cap: m - l}, false
	case *Ptr: // *array
		if b.IsNil() {
			e.runtimePanic(st, "nil pointer dereference")
			return nil, true
		}
		arr := st.load(b).(*ArrayV)
		l, h := 0, len(arr.E)
		if lo != nil {
			v, _ := lo.ConstVal()
			l = int(v)
		}
		if hi != nil {
			v, _ := hi.ConstVal()
			h = int(v)
		}
		if l < 0 || l > h || h > len(arr.E) {
			e.runtimePanic(st, "slice bounds out of range")
			return nil, true
		}
		return &SliceV{Arr: b, Off: l, Len: h - l, Cap: len(arr.E) - l}, false
	}
	unsupportedf("Slice on %T", base)
	return nil, false
}

func (e *Exec) implements(t types.Type, iface *types.Interface) bool {
	return types.Implements(t, iface)
}

func (e *Exec) typeAssert(st *State, fr *Frame, x *ssa.TypeAssert) (Value, bool) {
	c := e.C
	v := e.get(st, fr, x.X).(*Iface)
	ok := false
	var res Value
	if v.T != nil {
		if it, isI := x.AssertedType.Underlying().(*types.Interface); isI {
			if v.T == runtimeErrorType {
				ok = it.NumMethods() == 0
			} else {
				ok = e.implements(v.T, it)
			}
			res = v
		} else {
			ok = types.Identical(v.T, x.AssertedType)
			res = v.V
		}
	}
	if x.CommaOk {
		if !ok {
			res = e.zero(x.AssertedType)
		}
		return &TupleV{E: []Value{res, c.Bool(ok)}}, false
	}
	if !ok {
		e.runtimePanic(st, fmt.Sprintf("interface conversion: not %s", x.AssertedType))
		return nil, true
	}
	return res, false
}

// ---------------------------------------------------------------- range/next/select

type mapIter struct {
	K, V []Value
	I    int
}
type iterRef struct{ Obj int }

func permutations(n int) [][]int {
	if n == 0 {
		return [][]int{{}}
	}
	var res [][]int
	var rec func(cur []int, used []bool)
	rec = func(cur []int, used []bool) {
		if len(cur) == n {
			res = append(res, append([]int{}, cur...))
			return
		}
		for i := 0; i < n; i++ {
			if !used[i] {
				used[i] = true
				rec(append(cur, i), used)
				used[i] = false
			}
		}
	}
	rec(nil, make([]bool, n))
	return res
}

func (e *Exec) rangeOp(st *State, fr *Frame, x *ssa.Range) (Value, bool) {
	base := e.get(st, fr, x.X)
	m, ok := base.(*MapRef)
	if !ok {
		unsupportedf("range over %T", base)
	}
	var mv *MapV
	if m.Obj < 0 {
		mv = &MapV{}
	} else {
		e.recAccess(st, &Ptr{Obj: m.Obj}, false, fr, x)
		mv = st.heap[m.Obj].V.(*MapV)
	}
	n := len(mv.K)
	if st.mapOrders && n >= 2 {
		if n > 4 {
			e.Res.Inconclusive = append(e.Res.Inconclusive, fmt.Sprintf("map with %d entries: iteration orders not enumerated", n))
		} else {
			var alts []Alt
			for _, perm := range permutations(n) {
				perm := perm
				alts = append(alts, Alt{Cond: e.C.True, Tag: fmt.Sprintf("maporder%v", perm), Apply: func(s *State) {
					it := &mapIter{}
					for _, i := range perm {
						it.K = append(it.K, mv.K[i])
						it.V = append(it.V, mv.V[i])
					}
					p := s.alloc(it, nil, "mapiter")
					f := s.top()
					e.set(f, x, &iterRef{Obj: p.Obj})
					f.idx++
				}})
			}
			e.forkAlts(st, alts, st.Forks)
			return nil, true
		}
	}
	it := &mapIter{K: mv.K, V: mv.V}
	p := st.alloc(it, nil, "mapiter")
	return &iterRef{Obj: p.Obj}, false
}

func (e *Exec) next(st *State, fr *Frame, x *ssa.Next) Value {
	c := e.C
	if x.IsString {
		unsupportedf("range over string")
	}
	ir := e.get(st, fr, x.Iter).(*iterRef)
	it := st.heap[ir.Obj].V.(*mapIter)
	tt := x.Type().(*types.Tuple)
	if it.I >= len(it.K) {
		var k, v Value = c.False, c.False
		if _, inv := tt.At(1).Type().(*types.Basic); !inv || tt.At(1).Type().(*types.Basic).Kind() != types.Invalid {
			k = e.zero(tt.At(1).Type())
		}
		if b, inv := tt.At(2).Type().(*types.Basic); !inv || b.Kind() != types.Invalid {
			v = e.zero(tt.At(2).Type())
		}
		return &TupleV{E: []Value{c.False, k, v}}
	}
	k, v := it.K[it.I], it.V[it.I]
	st.setObj(ir.Obj, &mapIter{K: it.K, V: it.V, I: it.I + 1})
	return &TupleV{E: []Value{c.True, k, v}}
}

func (e *Exec) selectOp(st *State, fr *Frame, x *ssa.Select) (Value, bool) {
	c := e.C
	if x.Blocking {
		unsupportedf("blocking select")
	}
	// non-blocking: first ready case in order
	nrecv := 0
	for _, s := range x.States {
		if s.Dir == types.RecvOnly {
			nrecv++
		}
	}
	mkRes := func(idx int, recvOk bool, recvVals []Value) Value {
		el := []Value{c.Int64(int64(idx)), c.Bool(recvOk)}
		el = append(el, recvVals...)
		return &TupleV{E: el}
	}
	recvZero := func() []Value {
		var out []Value
		for _, s := range x.States {
			if s.Dir == types.RecvOnly {
				out = append(out, e.zero(s.Chan.Type().Underlying().(*types.Chan).Elem()))
			}
		}
		return out
	}
	if len(x.States) == 1 {
		if ch := e.get(st, fr, x.States[0].Chan).(*ChanRef); e.sharedChan(st, ch) {
			// recording mode: the outcome is a symbolic result constrained by the schedule
			s := x.States[0]
			ok := e.freshVar("sel", 0)
			pos := e.instrPos(fr, x)
			if s.Dir == types.RecvOnly {
				e.recChan(st, EvTryRecv, ch, ok, pos)
				elemT := s.Chan.Type().Underlying().(*types.Chan).Elem()
				got := mkRes(0, true, []Value{e.pooledObject(st, elemT)})
				none := mkRes(-1, false, recvZero())
				alts := []Alt{
					{Cond: ok, Apply: func(s2 *State) { f := s2.top(); e.set(f, x, got); f.idx++ }},
					{Cond: c.Not(ok), Apply: func(s2 *State) { f := s2.top(); e.set(f, x, none); f.idx++ }},
				}
				e.forkAlts(st, alts, st.Forks)
				return nil, true
			}
			e.recChan(st, EvTrySend, ch, ok, pos)
			sent := mkRes(0, false, recvZero())
			none := mkRes(-1, false, recvZero())
			alts := []Alt{
				{Cond: ok, Apply: func(s2 *State) { f := s2.top(); e.set(f, x, sent); f.idx++ }},
				{Cond: c.Not(ok), Apply: func(s2 *State) { f := s2.top(); e.set(f, x, none); f.idx++ }},
			}
			e.forkAlts(st, alts, st.Forks)
			return nil, true
		}
	}
	e.schedChanOp(st)
	for i, s := range x.States {
		ch := e.get(st, fr, s.Chan).(*ChanRef)
		if ch.Obj < 0 {
			continue
		}
		cv := st.heap[ch.Obj].V.(*ChanV)
		if s.Dir == types.RecvOnly {
			if len(cv.Q) > 0 {
				val := cv.Q[0]
				st.setObj(ch.Obj, &ChanV{Q: append([]Value{}, cv.Q[1:]...), Cap: cv.Cap, Closed: cv.Closed})
				vals := recvZero()
				ri := 0
				for j, s2 := range x.States {
					if s2.Dir == types.RecvOnly {
						if j == i {
							vals[ri] = val
						}
						ri++
					}
				}
				return mkRes(i, true, vals), false
			}
			if cv.Closed {
				return mkRes(i, false, recvZero()), false
			}
		} else {
			if cv.Closed {
				e.runtimePanic(st, "send on closed channel")
				return nil, true
			}
			if len(cv.Q) < cv.Cap {
				v := e.get(st, fr, s.Send)
				st.setObj(ch.Obj, &ChanV{Q: append(append([]Value{}, cv.Q...), v), Cap: cv.Cap})
				return mkRes(i, false, recvZero()), false
			}
		}
	}
	return mkRes(-1, false, recvZero()), false
}
