package exec

import (
	"fmt"
	"go/types"
	"strings"

	"golang.org/x/tools/go/ssa"

	"verif/engine/sym"
)

type CallInfo struct {
	Fn           *ssa.Function
	Args         []Value
	Call         *ssa.Call
	deferredCall bool
}

type OutKind int

const (
	OutValue OutKind = iota
	OutAlts
	OutTail
	OutHandled
)

type AltOut struct {
	Cond *sym.Term
	Val  Value
	Tag  string
	// ValFn, if set, computes the value on the state that takes the
	// alternative (ok=false: the path was taken over).
	ValFn func(st *State) (Value, bool)
	// Do, if set, runs on the chosen state before the value is delivered
	// (side effects of that alternative). If it returns false the path was
	// taken over (panic/end).
	Do func(st *State) bool
}

type Outcome struct {
	Kind     OutKind
	Val      Value
	Alts     []AltOut
	Tail     *Closure
	TailArgs []Value
	OnReturn func(st *State, res Value) Value
	// Exhaustive: the alternatives' conditions cover every case.
	Exhaustive bool
}

type Intrinsic func(e *Exec, st *State, ci *CallInfo) Outcome

func val(v Value) Outcome { return Outcome{Kind: OutValue, Val: v} }

var handled = Outcome{Kind: OutHandled}

func tuple(vs ...Value) *TupleV { return &TupleV{E: vs} }

// prepareCall resolves callee and arguments of a call (also used for defer).
func (e *Exec) prepareCall(st *State, fr *Frame, cc *ssa.CallCommon) deferred {
	args := make([]Value, 0, len(cc.Args)+1)
	if cc.IsInvoke() {
		recv := e.get(st, fr, cc.Value).(*Iface)
		if recv.T == nil {
			return deferred{fn: nilClosure}
		}
		if recv.T == runtimeErrorType {
			unsupportedf("method %s on runtime error model", cc.Method.Name())
		}
		fn := e.Prog.LookupMethod(recv.T, cc.Method.Pkg(), cc.Method.Name())
		if fn == nil {
			unsupportedf("method %s not found on %s", cc.Method.Name(), recv.T)
		}
		args = append(args, recv.V)
		for _, a := range cc.Args {
			args = append(args, e.get(st, fr, a))
		}
		return deferred{fn: &Closure{Fn: fn}, args: args}
	}
	for _, a := range cc.Args {
		args = append(args, e.get(st, fr, a))
	}
	switch f := cc.Value.(type) {
	case *ssa.Builtin:
		return deferred{bi: f, args: args}
	case *ssa.Function:
		return deferred{fn: &Closure{Fn: f}, args: args}
	}
	v := e.get(st, fr, cc.Value)
	cl, ok := v.(*Closure)
	if !ok {
		unsupportedf("call of %T", v)
	}
	return deferred{fn: cl, args: args}
}

func (e *Exec) call(st *State, fr *Frame, x *ssa.Call) string {
	d := e.prepareCall(st, fr, &x.Call)
	if d.bi != nil {
		res, h := e.builtin(st, fr, d.bi, d.args, x)
		if !h {
			e.set(fr, x, res)
			fr.idx++
		}
		return ""
	}
	cl := d.fn.(*Closure)
	if cl.Fn == nil {
		e.runtimePanic(st, "invalid memory address or nil pointer dereference (call of nil func)")
		return ""
	}
	name := cl.Fn.String()
	if name == "sort.Slice" || name == "sort.SliceStable" {
		// reflection-based swapper: run the harness's insertion sort over engine-level length/swap primitives instead
		// (what sort.Slice itself does below 12 elements; longer slices are reported as unsupported there)
		if f := e.Pkg.Func("verifSortSlice"); f != nil {
			cl = &Closure{Fn: f}
			name = f.String()
		}
	}
	if cl.Fn.Name() == "init" && cl.Fn.Pkg != nil && cl.Fn.Pkg != e.Pkg && !strings.HasPrefix(cl.Fn.Pkg.Pkg.Path(), e.Pkg.Pkg.Path()+"/") && cl.Fn.Signature.Recv() == nil {
		// package initialisers of dependencies are not run (DESIGN 2.5)
		fr.idx++
		return ""
	}
	if h, ok := e.intr[name]; ok {
		e.Res.Intrinsics[name] = true
		out := h(e, st, &CallInfo{Fn: cl.Fn, Args: append(append([]Value{}, cl.Bind...), d.args...), Call: x})
		e.finishIntrinsic(st, fr, x, out, false)
		return ""
	}
	if cl.Fn.Blocks == nil {
		unsupportedf("external function without model: %s", name)
	}
	if cl.Fn.Pkg != nil && cl.Fn.Pkg != e.Pkg {
		e.Res.Notes["ssa:"+name]++
	}
	nf := e.newFrame(cl.Fn, d.args, cl.Bind)
	nf.retSlot = fr.info.slots[x]
	nf.advance = true
	st.frames = append(st.frames, nf)
	return ""
}

// finishIntrinsic delivers an intrinsic's outcome.
func (e *Exec) finishIntrinsic(st *State, fr *Frame, x *ssa.Call, out Outcome, isDeferred bool) {
	deliver := func(s *State, v Value) {
		if isDeferred {
			if len(s.frames) > 0 && s.top().unwound {
				s.unwinding = true
			}
			return
		}
		f := s.top()
		e.set(f, x, v)
		f.idx++
	}
	switch out.Kind {
	case OutHandled:
	case OutValue:
		deliver(st, out.Val)
	case OutAlts:
		var alts []Alt
		for _, a := range out.Alts {
			a := a
			alts = append(alts, Alt{Cond: a.Cond, Tag: a.Tag, Apply: func(s *State) {
				if a.Do != nil {
					if !a.Do(s) {
						return
					}
				}
				v := a.Val
				if a.ValFn != nil {
					var ok bool
					v, ok = a.ValFn(s)
					if !ok {
						return
					}
				}
				deliver(s, v)
			}})
		}
		if !e.forkAltsX(st, alts, out.Exhaustive) {
			e.endPath(st, EndInfeasible)
		}
	case OutTail:
		cl := out.Tail
		if h, ok := e.intr[cl.Fn.String()]; ok {
			o2 := h(e, st, &CallInfo{Fn: cl.Fn, Args: append(append([]Value{}, cl.Bind...), out.TailArgs...), Call: x, deferredCall: isDeferred})
			if out.OnReturn != nil {
				if o2.Kind != OutValue {
					unsupportedf("tail call of forking intrinsic %s", cl.Fn)
				}
				o2.Val = out.OnReturn(st, o2.Val)
			}
			e.finishIntrinsic(st, fr, x, o2, isDeferred)
			return
		}
		nf := e.newFrame(cl.Fn, out.TailArgs, cl.Bind)
		nf.onReturn = out.OnReturn
		if isDeferred {
			nf.isDefer = true
		} else {
			nf.retSlot = fr.info.slots[x]
			nf.advance = true
		}
		st.frames = append(st.frames, nf)
	}
}

// callSync runs fn(args) to completion on a scratch copy of the state; it must
// not fork. Used for predicates applied to concrete arguments.
func (e *Exec) callSync(st *State, cl *Closure, args []Value) Value {
	s2 := st.Clone()
	s2.sched = nil // runs to completion on its own frame stack, whatever mode the caller is in
	var result Value
	nf := e.newFrame(cl.Fn, args, cl.Bind)
	nf.onReturn = func(_ *State, res Value) Value { result = res; return res }
	s2.frames = []*Frame{nf}
	forks := e.Res.Paths
	end := e.runLoop(s2, true)
	if end != EndReturn || e.Res.Paths != forks {
		unsupportedf("synchronous call of %s did not return plainly (%s)", cl.Fn, end)
	}
	return result
}

// ---------------------------------------------------------------- builtins

func (e *Exec) builtin(st *State, fr *Frame, bi *ssa.Builtin, args []Value, x *ssa.Call) (Value, bool) {
	c := e.C
	switch bi.Name() {
	case "len":
		switch a := args[0].(type) {
		case *Str:
			return e.lenOf(a), false
		case *SliceV:
			return e.i64(a.Len), false
		case *MapRef:
			if a.Obj < 0 {
				return e.i64(0), false
			}
			return e.i64(len(st.heap[a.Obj].V.(*MapV).K)), false
		case *ChanRef:
			if a.Obj < 0 {
				return e.i64(0), false
			}
			if e.sharedChan(st, a) {
				l := e.freshVar("chlen", 64)
				e.recChan(st, EvChanLen, a, l, e.instrPos(fr, x))
				cv := st.heap[a.Obj].V.(*ChanV)
				e.assumeTrusted(st, e.C.And(e.C.Sle(e.i64(0), l), e.C.Sle(l, e.i64(cv.Cap))))
				return l, false
			}
			return e.i64(len(st.heap[a.Obj].V.(*ChanV).Q)), false
		case *ArrayV:
			return e.i64(len(a.E)), false
		case *Ptr:
			return e.i64(len(st.load(a).(*ArrayV).E)), false
		}
		unsupportedf("len of %T", args[0])
	case "cap":
		switch a := args[0].(type) {
		case *SliceV:
			return e.i64(a.Cap), false
		case *Str:
			return e.lenOf(a), false
		case *ChanRef:
			if a.Obj < 0 {
				return e.i64(0), false
			}
			return e.i64(st.heap[a.Obj].V.(*ChanV).Cap), false
		}
		unsupportedf("cap of %T", args[0])
	case "append":
		return e.appendOp(st, fr, args, x), false
	case "copy":
		dst, ok1 := args[0].(*SliceV)
		src, ok2 := args[1].(*SliceV)
		if !ok1 || !ok2 {
			unsupportedf("copy on %T,%T", args[0], args[1])
		}
		n := minInt(dst.Len, src.Len)
		vals := make([]Value, n)
		for i := 0; i < n; i++ {
			e.recAccess(st, src.Arr.sub(src.Off+i), false, fr, x)
			vals[i] = st.load(src.Arr.sub(src.Off + i))
		}
		for i := 0; i < n; i++ {
			p := dst.Arr.sub(dst.Off + i)
			e.monitorStore(st, p, fr, x)
			e.recAccess(st, p, true, fr, x)
			st.store(p, vals[i])
		}
		return e.i64(n), false
	case "delete":
		m := args[0].(*MapRef)
		if m.Obj < 0 {
			return nil, false
		}
		mv := st.heap[m.Obj].V.(*MapV)
		for i, kk := range mv.K {
			eq := e.keyEq(kk, args[1])
			if eq.IsTrue() {
				nk := append(append([]Value{}, mv.K[:i]...), mv.K[i+1:]...)
				nv := append(append([]Value{}, mv.V[:i]...), mv.V[i+1:]...)
				if fr != nil {
					e.monitorStore(st, &Ptr{Obj: m.Obj}, fr, x)
				}
				st.setObj(m.Obj, &MapV{K: nk, V: nv})
				return nil, false
			}
			if !eq.IsFalse() {
				unsupportedf("delete with symbolic key")
			}
		}
		return nil, false
	case "recover":
		// effective only when called directly by a deferred function whose
		// deferring frame is being unwound
		if st.panicking != nil && len(st.frames) >= 2 {
			top := st.top()
			parent := st.frames[len(st.frames)-2]
			if top.isDefer && parent.unwound {
				v := st.panicking.Val
				st.panicking = nil
				return v, false
			}
		}
		return nilIface, false
	case "print", "println":
		return nil, false
	case "close":
		ch := args[0].(*ChanRef)
		cv := st.heap[ch.Obj].V.(*ChanV)
		st.setObj(ch.Obj, &ChanV{Q: cv.Q, Cap: cv.Cap, Closed: true})
		return nil, false
	case "ssa:wrapnilchk":
		if p, ok := args[0].(*Ptr); ok && p.IsNil() {
			e.runtimePanic(st, "value method called using nil pointer")
			return nil, true
		}
		return args[0], false
	case "min", "max":
		res := args[0].(*sym.Term)
		for _, a := range args[1:] {
			t := a.(*sym.Term)
			if bi.Name() == "min" {
				res = c.Ite(c.Slt(t, res), t, res)
			} else {
				res = c.Ite(c.Slt(res, t), t, res)
			}
		}
		return res, false
	}
	unsupportedf("builtin %s", bi.Name())
	return nil, false
}

func (e *Exec) appendOp(st *State, fr *Frame, args []Value, x *ssa.Call) Value {
	if s, ok := args[0].(*Str); ok {
		t, ok := args[1].(*Str)
		if !ok {
			if sl, ok2 := args[1].(*SliceV); ok2 && sl.Len == 0 {
				return s
			}
			unsupportedf("append to bytes of %T", args[1])
		}
		if s.Nil && t.Nil {
			return s
		}
		r := e.Concat(s, t)
		return r
	}
	s := args[0].(*SliceV)
	var add []Value
	switch t := args[1].(type) {
	case *SliceV:
		for i := 0; i < t.Len; i++ {
			e.recAccess(st, t.Arr.sub(t.Off+i), false, fr, x)
			add = append(add, st.load(t.Arr.sub(t.Off+i)))
		}
	case *Str:
		unsupportedf("append(string...) to non-byte slice")
	default:
		unsupportedf("append of %T", args[1])
	}
	if len(add) == 0 {
		return s
	}
	if s.Arr != nil && s.Len+len(add) <= s.Cap {
		for i, v := range add {
			p := s.Arr.sub(s.Off + s.Len + i)
			e.monitorStore(st, p, fr, x)
			e.recAccess(st, p, true, fr, x)
			st.store(p, v)
		}
		return &SliceV{Arr: s.Arr, Off: s.Off, Len: s.Len + len(add), Cap: s.Cap}
	}
	need := s.Len + len(add)
	ncap := s.Cap * 2
	if ncap < need {
		ncap = need
	}
	var elemT types.Type
	if x != nil {
		elemT = x.Type().Underlying().(*types.Slice).Elem()
	}
	arr := make([]Value, ncap)
	for i := 0; i < s.Len; i++ {
		e.recAccess(st, s.Arr.sub(s.Off+i), false, fr, x)
		arr[i] = st.load(s.Arr.sub(s.Off + i))
	}
	copy(arr[s.Len:], add)
	var z Value
	for i := need; i < ncap; i++ {
		if z == nil {
			z = e.zero(elemT)
		}
		arr[i] = z
	}
	site := "append"
	if fr != nil {
		site = "append in " + fr.fn.String()
	}
	p := st.alloc(&ArrayV{E: arr}, nil, site)
	return &SliceV{Arr: p, Off: 0, Len: need, Cap: ncap}
}

// ---------------------------------------------------------------- helpers for intrinsics

func (e *Exec) mkStringSlice(st *State, strs []*Str) *SliceV {
	if len(strs) == 0 {
		// non-nil empty slice
		p := st.alloc(&ArrayV{E: nil}, nil, "strslice")
		return &SliceV{Arr: p}
	}
	arr := make([]Value, len(strs))
	for i, s := range strs {
		arr[i] = s
	}
	p := st.alloc(&ArrayV{E: arr}, nil, "strslice")
	return &SliceV{Arr: p, Len: len(strs), Cap: len(strs)}
}

func (e *Exec) sliceElems(st *State, s *SliceV) []Value {
	out := make([]Value, s.Len)
	for i := 0; i < s.Len; i++ {
		out[i] = st.load(s.Arr.sub(s.Off + i))
	}
	return out
}

func concStr(v Value) (string, bool) {
	s, ok := v.(*Str)
	if !ok || !s.IsConc {
		return "", false
	}
	return s.Conc, true
}

func mustConc(v Value, what string) string {
	s, ok := concStr(v)
	if !ok {
		unsupportedf("%s must be a concrete string", what)
	}
	return s
}

func constInt(v Value, what string) int {
	t, ok := v.(*sym.Term)
	if !ok {
		unsupportedf("%s must be an int", what)
	}
	cv, ok := t.ConstVal()
	if !ok {
		unsupportedf("%s must be concrete", what)
	}
	return int(int64(cv))
}

func shortName(fn *ssa.Function) string {
	s := fn.String()
	if i := strings.LastIndex(s, "/"); i >= 0 {
		s = s[i+1:]
	}
	return s
}

var _ = fmt.Sprintf
