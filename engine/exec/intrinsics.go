package exec

import (
	"fmt"
	"go/types"
	"math/bits"
	"net/textproto"
	"net/url"
	"path"
	"regexp"
	"strconv"
	"strings"

	"verif/engine/smt"
	"verif/engine/sym"
)

const hp = "github.com/emicklei/go-restful/v3."

func buildIntrinsics() map[string]Intrinsic {
	m := map[string]Intrinsic{}
	// ---- harness primitives
	m[hp+"nondetString"] = inNondetString
	m[hp+"nondetBool"] = inNondetBool
	m[hp+"nondetFixed"] = func(e *Exec, st *State, ci *CallInfo) Outcome {
		name := mustConc(ci.Args[0], "nondet name")
		n := constInt(ci.Args[1], "length")
		if fv, ok := e.Fixed[name]; ok {
			str, _ := fv.(string)
			cs := e.ConcStr(str)
			e.addInput(st, name, "string", cs)
			return val(cs)
		}
		cells := make([]*sym.Term, n)
		for i := range cells {
			cells[i] = e.C.Var(fmt.Sprintf("%s!%d", name, i), 8)
			e.assumeTrusted(st, e.C.Ule(cells[i], e.C.BV(0x7f, 8)))
		}
		s := &Str{Base: &StrBase{Cells: cells, Name: name}, Off: e.i64(0), Len: e.i64(n), Max: n}
		e.addInput(st, name, "string", s)
		return val(s)
	}
	m[hp+"nondetInt"] = inNondetInt
	m[hp+"nondetChoice"] = inNondetChoice
	m[hp+"verifAssume"] = inAssume
	m[hp+"verifAssert"] = inAssert
	m[hp+"verifCover"] = inCover
	m[hp+"verifKnown"] = inKnown
	m[hp+"verifSliceLen"] = func(e *Exec, st *State, ci *CallInfo) Outcome {
		sl, ok := ci.Args[0].(*Iface).V.(*SliceV)
		if !ok {
			unsupportedf("sort.Slice of a non-slice")
		}
		if sl.Len >= 12 {
			unsupportedf("sort.Slice of 12 or more elements (the order of equal elements is unspecified)")
		}
		return val(e.i64(sl.Len))
	}
	m[hp+"verifSliceSwap"] = func(e *Exec, st *State, ci *CallInfo) Outcome {
		sl := ci.Args[0].(*Iface).V.(*SliceV)
		i, j := constInt(ci.Args[1], "swap index"), constInt(ci.Args[2], "swap index")
		pi, pj := sl.Arr.sub(sl.Off+i), sl.Arr.sub(sl.Off+j)
		vi, vj := st.load(pi), st.load(pj)
		st.store(pi, vj)
		st.store(pj, vi)
		return val(nil)
	}
	m[hp+"verifUnspecified"] = func(e *Exec, st *State, ci *CallInfo) Outcome {
		e.endPath(st, EndUnspecified)
		return handled
	}
	m[hp+"verifObserve"] = inObserve
	m[hp+"verifObserveStr"] = inObserve
	m[hp+"verifObserveInt"] = inObserve
	m[hp+"verifObserveBool"] = inObserve
	m[hp+"verifMapOrders"] = func(e *Exec, st *State, ci *CallInfo) Outcome {
		st.mapOrders = ci.Args[0].(*sym.Term).IsTrue()
		return val(nil)
	}
	m[hp+"verifTag"] = func(e *Exec, st *State, ci *CallInfo) Outcome {
		st.Tags = append(st.Tags, mustConc(ci.Args[0], "tag"))
		return val(nil)
	}
	m[hp+"verifSymbolic"] = func(e *Exec, st *State, ci *CallInfo) Outcome { return val(e.C.True) }
	m[hp+"verifFrameBegin"] = inFrameBegin
	m[hp+"verifFrameEnd"] = func(e *Exec, st *State, ci *CallInfo) Outcome {
		st.frameMon = nil
		return val(nil)
	}
	m[hp+"verifLocksFree"] = inLocksFree
	m[hp+"verifSpawn"] = func(e *Exec, st *State, ci *CallInfo) Outcome {
		var old []Value
		if t, ok := st.extra["threads"].(*TupleV); ok {
			old = t.E
		}
		st.extra["threads"] = &TupleV{E: append(append([]Value{}, old...), ci.Args[0])}
		return val(nil)
	}
	m[hp+"verifKeep"] = func(e *Exec, st *State, ci *CallInfo) Outcome { return val(ci.Args[0]) }
	m[hp+"verifYield"] = func(e *Exec, st *State, ci *CallInfo) Outcome {
		if ci.deferredCall {
			return val(nil)
		}
		return e.schedYield(st)
	}
	m[hp+"verifAtomicBegin"] = func(e *Exec, st *State, ci *CallInfo) Outcome { return val(nil) }
	m[hp+"verifAtomicEnd"] = func(e *Exec, st *State, ci *CallInfo) Outcome { return val(nil) }
	m[hp+"verifRunSchedules"] = func(e *Exec, st *State, ci *CallInfo) Outcome {
		pre, ok := ci.Args[0].(*sym.Term).ConstVal()
		if !ok {
			unsupportedf("verifRunSchedules: symbolic preemption bound")
		}
		stuckMsg := mustConc(ci.Args[1], "stuck message")
		var bodies []*Closure
		if t, ok := st.extra["threads"].(*TupleV); ok {
			for _, v := range t.E {
				bodies = append(bodies, v.(*Closure))
			}
		}
		delete(st.extra, "threads")
		if st.rec != nil || st.sched != nil {
			unsupportedf("verifRunSchedules inside a thread")
		}
		st.top().idx++ // the main frames resume behind the call when every thread has ended
		e.startSchedules(st, bodies, int(pre), stuckMsg)
		return handled
	}
	m[hp+"verifRunThreads"] = func(e *Exec, st *State, ci *CallInfo) Outcome {
		raceMsg := mustConc(ci.Args[0], "race message")
		stuckMsg := mustConc(ci.Args[1], "stuck message")
		var bodies []*Closure
		if t, ok := st.extra["threads"].(*TupleV); ok {
			for _, v := range t.E {
				bodies = append(bodies, v.(*Closure))
			}
		}
		delete(st.extra, "threads")
		trs := e.runThreads(st, bodies)
		for ti, tr := range trs {
			e.Res.Notes[fmt.Sprintf("event paths of thread %d", ti)] += len(tr.paths)
			for _, p := range tr.paths {
				if p.End != EndReturn {
					e.Res.Inconclusive = append(e.Res.Inconclusive, fmt.Sprintf("thread %d ended with %s while recording", ti, p.End))
				}
			}
		}
		for _, f := range e.analyseThreads(st, trs, raceMsg != "", stuckMsg != "") {
			msg := raceMsg
			if f.Kind == "stuck" {
				msg = stuckMsg
			}
			in := e.InputsUnder(st, e.pathModel(st))
			in["__finding"] = f.Desc
			in["__schedule"] = f.Schedule
			known := ""
			for _, k := range st.Known {
				if k.Cond.IsTrue() && (strings.HasPrefix(k.ID, f.Kind) || !strings.Contains(k.ID, ":")) {
					known = k.ID
				}
			}
			st.mayFail = true
			e.Res.Violations = append(e.Res.Violations, Violation{Msg: msg, Known: known, Inputs: in, PathTag: f.Kind})
		}
		st.Covers = append(st.Covers, "threads-analysed")
		return val(nil)
	}
	m[hp+"verifFingerprint"] = func(e *Exec, st *State, ci *CallInfo) Outcome { return val(e.ConcStr("")) }
	m[hp+"verifConcreteInt"] = inConcreteInt
	m[hp+"vAnd"] = func(e *Exec, st *State, ci *CallInfo) Outcome {
		return val(e.C.And(ci.Args[0].(*sym.Term), ci.Args[1].(*sym.Term)))
	}
	m[hp+"vOr"] = func(e *Exec, st *State, ci *CallInfo) Outcome {
		return val(e.C.Or(ci.Args[0].(*sym.Term), ci.Args[1].(*sym.Term)))
	}
	m[hp+"vImp"] = func(e *Exec, st *State, ci *CallInfo) Outcome {
		return val(e.C.Implies(ci.Args[0].(*sym.Term), ci.Args[1].(*sym.Term)))
	}
	m[hp+"vIte"] = func(e *Exec, st *State, ci *CallInfo) Outcome {
		return val(e.C.Ite(ci.Args[0].(*sym.Term), ci.Args[1].(*sym.Term), ci.Args[2].(*sym.Term)))
	}
	m[hp+"vIteB"] = m[hp+"vIte"]
	m[hp+"vIteStr"] = func(e *Exec, st *State, ci *CallInfo) Outcome {
		c := ci.Args[0].(*sym.Term)
		a, b := sArg(ci, 1), sArg(ci, 2)
		if c.IsTrue() {
			return val(a)
		}
		if c.IsFalse() {
			return val(b)
		}
		return val(e.IteStr(c, a, b))
	}
	m[hp+"vSubstr"] = func(e *Exec, st *State, ci *CallInfo) Outcome {
		s := sArg(ci, 0)
		lo, hi := ci.Args[1].(*sym.Term), ci.Args[2].(*sym.Term)
		cc := e.C
		ls := e.lenOf(s)
		z := e.i64(0)
		lo = cc.Ite(cc.Slt(lo, z), z, lo)
		lo = cc.Ite(cc.Slt(ls, lo), ls, lo)
		hi = cc.Ite(cc.Slt(hi, lo), lo, hi)
		hi = cc.Ite(cc.Slt(ls, hi), ls, hi)
		return val(e.StrSlice(s, lo, hi))
	}
	m[hp+"vByte"] = func(e *Exec, st *State, ci *CallInfo) Outcome {
		s := sArg(ci, 0)
		i := ci.Args[1].(*sym.Term)
		cc := e.C
		in := cc.And(cc.Sle(e.i64(0), i), cc.Slt(i, e.lenOf(s)))
		return val(cc.Ite(in, cc.Zext(e.atT(s, i), 64), e.i64(0)))
	}
	m[hp+"verifCoverIf"] = func(e *Exec, st *State, ci *CallInfo) Outcome {
		label := mustConc(ci.Args[0], "cover label")
		cond := ci.Args[1].(*sym.Term)
		if cond.IsFalse() {
			return val(nil)
		}
		if e.Res.Covers[label] > 0 {
			return val(nil)
		}
		if v, ok := st.factOf(cond); ok && !v {
			return val(nil)
		}
		e.S.Push()
		e.S.Assert(cond)
		if e.S.Check() == smt.Sat {
			if m, err := e.S.Model(); err == nil {
				e.Res.Covers[label]++
				e.Res.CoverInputs[label] = e.InputsUnder(st, sym.NewEvaluator(m))
			}
		}
		e.S.Pop()
		return val(nil)
	}
	registerStrings(m)
	registerRegexp(m)
	registerStubs(m)
	return m
}

func (e *Exec) addInput(st *State, name, kind string, v Value) {
	for _, in := range st.Inputs {
		if in.Name == name {
			unsupportedf("duplicate nondet name %q", name)
		}
	}
	st.Inputs = append(st.Inputs, InputRec{Name: name, Kind: kind, Val: v})
}

func fixedInt(v interface{}) int {
	switch x := v.(type) {
	case float64:
		return int(x)
	case int:
		return x
	case int64:
		return int(x)
	}
	return 0
}

func inNondetString(e *Exec, st *State, ci *CallInfo) Outcome {
	name := mustConc(ci.Args[0], "nondet name")
	cap := constInt(ci.Args[1], "nondet cap")
	if fv, ok := e.Fixed[name]; ok {
		str, _ := fv.(string)
		cs := e.ConcStr(str)
		e.addInput(st, name, "string", cs)
		return val(cs)
	}
	s, cons := e.NewSymStr(name, cap)
	for _, c := range cons {
		e.assumeTrusted(st, c)
	}
	e.addInput(st, name, "string", s)
	return val(s)
}

func inNondetBool(e *Exec, st *State, ci *CallInfo) Outcome {
	name := mustConc(ci.Args[0], "nondet name")
	if fv, ok := e.Fixed[name]; ok {
		b, _ := fv.(bool)
		e.addInput(st, name, "bool", e.C.Bool(b))
		return val(e.C.Bool(b))
	}
	v := e.C.Var(name, 0)
	e.addInput(st, name, "bool", v)
	return val(v)
}

func inNondetInt(e *Exec, st *State, ci *CallInfo) Outcome {
	name := mustConc(ci.Args[0], "nondet name")
	lo := constInt(ci.Args[1], "lo")
	hi := constInt(ci.Args[2], "hi")
	if fv, ok := e.Fixed[name]; ok {
		n := fixedInt(fv)
		e.addInput(st, name, "int", e.i64(n))
		return val(e.i64(n))
	}
	v := e.C.Var(name, 64)
	e.addInput(st, name, "int", v)
	if lo > hi {
		e.endPath(st, EndInfeasible)
		return handled
	}
	e.assumeTrusted(st, e.C.And(e.C.Sle(e.i64(lo), v), e.C.Sle(v, e.i64(hi))))
	return val(v)
}

func inNondetChoice(e *Exec, st *State, ci *CallInfo) Outcome {
	name := mustConc(ci.Args[0], "nondet name")
	n := constInt(ci.Args[1], "n")
	if fv, ok := e.Fixed[name]; ok {
		k := fixedInt(fv)
		e.addInput(st, name, "int", e.i64(k))
		return val(e.i64(k))
	}
	v := e.C.Var(name, 64)
	e.addInput(st, name, "int", v)
	var alts []AltOut
	for i := 0; i < n; i++ {
		alts = append(alts, AltOut{Cond: e.C.Eq(v, e.i64(i)), Val: e.i64(i), Tag: fmt.Sprintf("%s=%d", name, i)})
	}
	return Outcome{Kind: OutAlts, Alts: alts}
}

// inConcreteInt forks over the feasible values of an int (bounded).
func inConcreteInt(e *Exec, st *State, ci *CallInfo) Outcome {
	t := ci.Args[0].(*sym.Term)
	if t.IsConst() {
		return val(t)
	}
	limit := constInt(ci.Args[1], "limit")
	var alts []AltOut
	for i := 0; i <= limit; i++ {
		alts = append(alts, AltOut{Cond: e.C.Eq(t, e.i64(i)), Val: e.i64(i)})
	}
	return Outcome{Kind: OutAlts, Alts: alts}
}

func inAssume(e *Exec, st *State, ci *CallInfo) Outcome {
	if !e.assume(st, ci.Args[0].(*sym.Term)) {
		e.endPath(st, EndInfeasible)
		return handled
	}
	return val(nil)
}

func inCover(e *Exec, st *State, ci *CallInfo) Outcome {
	st.Covers = append(st.Covers, mustConc(ci.Args[0], "cover label"))
	return val(nil)
}

func inKnown(e *Exec, st *State, ci *CallInfo) Outcome {
	st.Known = append(st.Known, KnownClass{ID: mustConc(ci.Args[0], "known id"), Cond: ci.Args[1].(*sym.Term)})
	return val(nil)
}

func inObserve(e *Exec, st *State, ci *CallInfo) Outcome {
	st.Obs = append(st.Obs, ObsRec{Key: mustConc(ci.Args[0], "observe key"), Val: ci.Args[1]})
	return val(nil)
}

// inAssert discharges an obligation: PC ∧ ¬cond must be unsat (outside the
// known classes registered on the path).
func inAssert(e *Exec, st *State, ci *CallInfo) Outcome {
	cond := ci.Args[0].(*sym.Term)
	msg := mustConc(ci.Args[1], "assert message")
	r := e.Res
	r.Obligations++
	if cond.IsTrue() {
		r.Discharged++
		r.Trivial++
		return val(nil)
	}
	c := e.C
	neg := c.Not(cond)
	tag := strings.Join(st.Tags, ",")
	// new violations: outside every known class
	var notKnown []*sym.Term
	for _, k := range st.Known {
		notKnown = append(notKnown, c.Not(k.Cond))
	}
	e.S.Tag = "assert " + msg
	e.S.Push()
	e.S.Assert(neg)
	for _, nk := range notKnown {
		e.S.Assert(nk)
	}
	res := e.S.Check()
	if res == smt.Unsat && len(r.Scripts) < r.ScriptLimit && (r.Obligations+e.Seed)%3 == 0 {
		terms := append(append([]*sym.Term{}, st.PC...), neg)
		terms = append(terms, notKnown...)
		r.Scripts = append(r.Scripts, ObligationScript{Msg: msg, Expect: "unsat", SMT: sym.Script(terms)})
	}
	ok := true
	switch res {
	case smt.Sat:
		ok = false
		m, err := e.S.Model()
		if err == nil {
			e.selfCheckModel(st, m, neg)
			st.mayFail = true
			r.Violations = append(r.Violations, Violation{Msg: msg, Inputs: e.InputsUnder(st, sym.NewEvaluator(m)), PathTag: tag})
		} else {
			r.Inconclusive = append(r.Inconclusive, "model: "+err.Error())
		}
	case smt.Unknown:
		ok = false
		r.Inconclusive = append(r.Inconclusive, "solver unknown on obligation: "+msg)
	}
	e.S.Pop()
	for _, k := range st.Known {
		if k.Cond.IsFalse() {
			continue
		}
		e.S.Push()
		e.S.Assert(neg)
		e.S.Assert(k.Cond)
		switch e.S.Check() {
		case smt.Sat:
			m, err := e.S.Model()
			if err == nil {
				st.mayFail = true
				r.Violations = append(r.Violations, Violation{Msg: msg, Known: k.ID, Inputs: e.InputsUnder(st, sym.NewEvaluator(m)), PathTag: tag})
			}
		case smt.Unknown:
			r.Inconclusive = append(r.Inconclusive, "solver unknown on known-class obligation: "+msg)
		}
		e.S.Pop()
	}
	if ok {
		r.Discharged++
	}
	// continue in the worlds where the assertion holds
	if !e.assume(st, cond) {
		e.endPath(st, EndInfeasible)
		return handled
	}
	return val(nil)
}

// selfCheckModel cross-checks the evaluator against the solver: every conjunct
// of the path condition and the extra term must evaluate to true under m.
func (e *Exec) selfCheckModel(st *State, m sym.Model, extra *sym.Term) {
	ev := sym.NewEvaluator(m)
	bad := 0
	for _, t := range st.PC {
		if ev.Eval(t) != 1 {
			bad++
		}
	}
	if extra != nil && ev.Eval(extra) != 1 {
		bad++
	}
	if bad > 0 {
		e.Res.Inconclusive = append(e.Res.Inconclusive, fmt.Sprintf("engine self-check failed: solver model violates %d asserted terms under the evaluator", bad))
	}
}

func inFrameBegin(e *Exec, st *State, ci *CallInfo) Outcome {
	label := mustConc(ci.Args[0], "frame label")
	st.epoch++
	fm := &frameMon{epoch: st.epoch, owned: map[int]bool{}, allowed: map[int]bool{}, label: label}
	// owned roots: transitive closure of the variadic interface arguments
	if len(ci.Args) > 1 {
		if sl, ok := ci.Args[1].(*SliceV); ok {
			for _, v := range e.sliceElems(st, sl) {
				e.reach(st, v, fm.owned)
			}
		}
	}
	st.frameMon = fm
	return val(nil)
}

// reach marks every heap object reachable from v.
func (e *Exec) reach(st *State, v Value, seen map[int]bool) {
	switch x := v.(type) {
	case *Ptr:
		if x.IsNil() || seen[x.Obj] {
			return
		}
		seen[x.Obj] = true
		e.reach(st, st.heap[x.Obj].V, seen)
	case *StructV:
		for _, f := range x.F {
			e.reach(st, f, seen)
		}
	case *ArrayV:
		for _, f := range x.E {
			e.reach(st, f, seen)
		}
	case *SliceV:
		if x.Arr != nil {
			e.reach(st, x.Arr, seen)
		}
	case *MapRef:
		if x.Obj >= 0 && !seen[x.Obj] {
			seen[x.Obj] = true
			mv := st.heap[x.Obj].V.(*MapV)
			for _, vv := range mv.V {
				e.reach(st, vv, seen)
			}
		}
	case *Iface:
		if x.T != nil {
			e.reach(st, x.V, seen)
		}
	case *Closure:
		for _, b := range x.Bind {
			e.reach(st, b, seen)
		}
	case *TupleV:
		for _, f := range x.E {
			e.reach(st, f, seen)
		}
	}
}

func inLocksFree(e *Exec, st *State, ci *CallInfo) Outcome {
	free := true
	for k, v := range st.extra {
		if strings.HasPrefix(k, "rw:") || strings.HasPrefix(k, "mu:") {
			if t, ok := v.(*sym.Term); ok {
				if cv, _ := t.ConstVal(); cv != 0 {
					free = false
				}
			}
		}
	}
	return val(e.C.Bool(free))
}

// ---------------------------------------------------------------- strings

func allConc(args []Value) bool {
	for _, a := range args {
		switch x := a.(type) {
		case *Str:
			if !x.IsConc {
				return false
			}
		case *sym.Term:
			if !x.IsConst() {
				return false
			}
		}
	}
	return true
}

func sArg(ci *CallInfo, i int) *Str { return ci.Args[i].(*Str) }

func registerStrings(m map[string]Intrinsic) {
	m["strings.Index"] = func(e *Exec, st *State, ci *CallInfo) Outcome {
		s, sep := sArg(ci, 0), sArg(ci, 1)
		if s.IsConc && sep.IsConc {
			return val(e.i64(strings.Index(s.Conc, sep.Conc)))
		}
		if s.IsConc {
			unsupportedf("strings.Index of concrete string with symbolic separator")
		}
		return val(e.Index(s, sep, nil))
	}
	m["strings.IndexByte"] = func(e *Exec, st *State, ci *CallInfo) Outcome {
		s := sArg(ci, 0)
		b := ci.Args[1].(*sym.Term)
		bv, ok := b.ConstVal()
		if !ok {
			unsupportedf("IndexByte with symbolic byte")
		}
		if s.IsConc {
			return val(e.i64(strings.IndexByte(s.Conc, byte(bv))))
		}
		return val(e.Index(s, e.ConcStr(string([]byte{byte(bv)})), nil))
	}
	m["strings.LastIndex"] = func(e *Exec, st *State, ci *CallInfo) Outcome {
		s, sep := sArg(ci, 0), sArg(ci, 1)
		if s.IsConc && sep.IsConc {
			return val(e.i64(strings.LastIndex(s.Conc, sep.Conc)))
		}
		return val(e.LastIndex(s, sep))
	}
	m["strings.Contains"] = func(e *Exec, st *State, ci *CallInfo) Outcome {
		s, sep := sArg(ci, 0), sArg(ci, 1)
		if s.IsConc && sep.IsConc {
			return val(e.C.Bool(strings.Contains(s.Conc, sep.Conc)))
		}
		return val(e.C.Sge(e.Index(s, sep, nil), e.i64(0)))
	}
	m["strings.Count"] = func(e *Exec, st *State, ci *CallInfo) Outcome {
		s, sep := sArg(ci, 0), sArg(ci, 1)
		if s.IsConc && sep.IsConc {
			return val(e.i64(strings.Count(s.Conc, sep.Conc)))
		}
		if !sep.IsConc || len(sep.Conc) != 1 {
			unsupportedf("strings.Count with separator that is not a single concrete byte")
		}
		_, _, cnt := e.sepRanks(s, sep.Conc[0])
		return val(cnt)
	}
	m["strings.HasPrefix"] = func(e *Exec, st *State, ci *CallInfo) Outcome {
		return val(e.HasPrefix(sArg(ci, 0), sArg(ci, 1)))
	}
	m["strings.HasSuffix"] = func(e *Exec, st *State, ci *CallInfo) Outcome {
		return val(e.HasSuffix(sArg(ci, 0), sArg(ci, 1)))
	}
	m["strings.TrimPrefix"] = func(e *Exec, st *State, ci *CallInfo) Outcome {
		s, p := sArg(ci, 0), sArg(ci, 1)
		if s.IsConc && p.IsConc {
			return val(e.ConcStr(strings.TrimPrefix(s.Conc, p.Conc)))
		}
		has := e.HasPrefix(s, p)
		lp := e.lenOf(p)
		return Outcome{Kind: OutAlts, Exhaustive: true, Alts: []AltOut{
			{Cond: has, Val: e.StrSlice(s, lp, e.lenOf(s))},
			{Cond: e.C.Not(has), Val: s},
		}}
	}
	m["strings.TrimSuffix"] = func(e *Exec, st *State, ci *CallInfo) Outcome {
		s, p := sArg(ci, 0), sArg(ci, 1)
		if s.IsConc && p.IsConc {
			return val(e.ConcStr(strings.TrimSuffix(s.Conc, p.Conc)))
		}
		has := e.HasSuffix(s, p)
		return Outcome{Kind: OutAlts, Exhaustive: true, Alts: []AltOut{
			{Cond: has, Val: e.StrSlice(s, e.i64(0), e.C.Sub(e.lenOf(s), e.lenOf(p)))},
			{Cond: e.C.Not(has), Val: s},
		}}
	}
	trim := func(left, right bool, native func(string, string) string) Intrinsic {
		return func(e *Exec, st *State, ci *CallInfo) Outcome {
			s, cut := sArg(ci, 0), sArg(ci, 1)
			if !cut.IsConc {
				unsupportedf("Trim with symbolic cutset")
			}
			if s.IsConc {
				return val(e.ConcStr(native(s.Conc, cut.Conc)))
			}
			for i := 0; i < len(cut.Conc); i++ {
				if cut.Conc[i] >= 0x80 {
					unsupportedf("Trim with non-ASCII cutset")
				}
			}
			return val(e.TrimPred(s, func(b *sym.Term) *sym.Term { return e.byteIn(b, cut.Conc) }, left, right))
		}
	}
	m["strings.Trim"] = trim(true, true, strings.Trim)
	m["strings.TrimLeft"] = trim(true, false, strings.TrimLeft)
	m["strings.TrimRight"] = trim(false, true, strings.TrimRight)
	m["strings.TrimSpace"] = func(e *Exec, st *State, ci *CallInfo) Outcome {
		s := sArg(ci, 0)
		if s.IsConc {
			return val(e.ConcStr(strings.TrimSpace(s.Conc)))
		}
		return val(e.TrimPred(s, func(b *sym.Term) *sym.Term { return e.byteIn(b, "\t\n\v\f\r ") }, true, true))
	}
	m["strings.TrimFunc"] = func(e *Exec, st *State, ci *CallInfo) Outcome {
		s := sArg(ci, 0)
		cl := ci.Args[1].(*Closure)
		tab := e.cutsets[cl.Fn]
		if tab == nil || len(cl.Bind) > 0 {
			tab = &[128]bool{}
			for r := 0; r < 128; r++ {
				res := e.callSync(st, cl, []Value{e.C.BV(uint64(r), 32)})
				t, ok := res.(*sym.Term)
				if !ok || !t.IsConst() {
					unsupportedf("TrimFunc predicate not concrete")
				}
				tab[r] = t.IsTrue()
			}
			if len(cl.Bind) == 0 {
				e.cutsets[cl.Fn] = tab
			}
		}
		if s.IsConc {
			return val(e.ConcStr(strings.TrimFunc(s.Conc, func(r rune) bool { return r < 128 && tab[r] })))
		}
		return val(e.TrimPred(s, func(b *sym.Term) *sym.Term { return e.byteInTable(b, tab) }, true, true))
	}
	m["strings.ToLower"] = func(e *Exec, st *State, ci *CallInfo) Outcome { return val(e.mapBytes(sArg(ci, 0), true)) }
	m["strings.ToUpper"] = func(e *Exec, st *State, ci *CallInfo) Outcome { return val(e.mapBytes(sArg(ci, 0), false)) }
	m["strings.EqualFold"] = func(e *Exec, st *State, ci *CallInfo) Outcome {
		return val(e.StrEq(e.mapBytes(sArg(ci, 0), true), e.mapBytes(sArg(ci, 1), true)))
	}
	m["strings.Join"] = func(e *Exec, st *State, ci *CallInfo) Outcome {
		sl := ci.Args[0].(*SliceV)
		sep := sArg(ci, 1)
		res := e.ConcStr("")
		for i, v := range e.sliceElems(st, sl) {
			if i > 0 {
				res = e.Concat(res, sep)
			}
			res = e.Concat(res, v.(*Str))
		}
		return val(res)
	}
	m["strings.Split"] = func(e *Exec, st *State, ci *CallInfo) Outcome {
		return e.split(st, sArg(ci, 0), sArg(ci, 1), -1)
	}
	m["strings.SplitN"] = func(e *Exec, st *State, ci *CallInfo) Outcome {
		n := constInt(ci.Args[2], "SplitN n")
		return e.split(st, sArg(ci, 0), sArg(ci, 1), n)
	}
	m["strings.Replace"] = func(e *Exec, st *State, ci *CallInfo) Outcome {
		if allConc(ci.Args) {
			return val(e.ConcStr(strings.Replace(sArg(ci, 0).Conc, sArg(ci, 1).Conc, sArg(ci, 2).Conc, constInt(ci.Args[3], "n"))))
		}
		unsupportedf("strings.Replace on symbolic string")
		return handled
	}
	m["strings.Fields"] = func(e *Exec, st *State, ci *CallInfo) Outcome {
		if allConc(ci.Args) {
			var out []*Str
			for _, f := range strings.Fields(sArg(ci, 0).Conc) {
				out = append(out, e.ConcStr(f))
			}
			return val(e.mkStringSlice(st, out))
		}
		unsupportedf("strings.Fields on symbolic string")
		return handled
	}
	m["strings.Repeat"] = func(e *Exec, st *State, ci *CallInfo) Outcome {
		if allConc(ci.Args) {
			return val(e.ConcStr(strings.Repeat(sArg(ci, 0).Conc, constInt(ci.Args[1], "count"))))
		}
		unsupportedf("strings.Repeat on symbolic string")
		return handled
	}
	// natives on concrete arguments
	m["regexp.QuoteMeta"] = func(e *Exec, st *State, ci *CallInfo) Outcome {
		return val(e.ConcStr(regexp.QuoteMeta(mustConc(ci.Args[0], "QuoteMeta argument"))))
	}
	m["net/textproto.CanonicalMIMEHeaderKey"] = func(e *Exec, st *State, ci *CallInfo) Outcome {
		return val(e.ConcStr(textproto.CanonicalMIMEHeaderKey(mustConc(ci.Args[0], "header key"))))
	}
	m["net/http.CanonicalHeaderKey"] = m["net/textproto.CanonicalMIMEHeaderKey"]
	m["path.Join"] = func(e *Exec, st *State, ci *CallInfo) Outcome {
		var parts []string
		for _, v := range e.sliceElems(st, ci.Args[0].(*SliceV)) {
			parts = append(parts, mustConc(v, "path.Join element"))
		}
		return val(e.ConcStr(path.Join(parts...)))
	}
	m["strconv.Itoa"] = func(e *Exec, st *State, ci *CallInfo) Outcome {
		t := ci.Args[0].(*sym.Term)
		if v, ok := t.ConstVal(); ok {
			return val(e.ConcStr(strconv.Itoa(int(int64(v)))))
		}
		return val(e.opaqueStr(st, "itoa", 4))
	}
	bitsFn := func(f func(uint64) int) Intrinsic {
		return func(e *Exec, st *State, ci *CallInfo) Outcome {
			t := ci.Args[0].(*sym.Term)
			v, ok := t.ConstVal()
			if !ok {
				unsupportedf("math/bits function on symbolic value")
			}
			return val(e.i64(f(v)))
		}
	}
	m["math/bits.Len"] = bitsFn(func(v uint64) int { return bits.Len64(v) })
	m["math/bits.Len64"] = bitsFn(func(v uint64) int { return bits.Len64(v) })
	m["math/bits.Len32"] = bitsFn(func(v uint64) int { return bits.Len32(uint32(v)) })
	m["math/bits.TrailingZeros"] = bitsFn(func(v uint64) int { return bits.TrailingZeros64(v) })
	m["math/bits.TrailingZeros64"] = bitsFn(func(v uint64) int { return bits.TrailingZeros64(v) })
	m["math/bits.LeadingZeros64"] = bitsFn(func(v uint64) int { return bits.LeadingZeros64(v) })
	m["net/url.PathEscape"] = func(e *Exec, st *State, ci *CallInfo) Outcome {
		return val(e.ConcStr(url.PathEscape(mustConc(ci.Args[0], "url.PathEscape argument"))))
	}
	m["net/url.QueryEscape"] = func(e *Exec, st *State, ci *CallInfo) Outcome {
		return val(e.ConcStr(url.QueryEscape(mustConc(ci.Args[0], "url.QueryEscape argument"))))
	}
	m["strconv.ParseFloat"] = inParseFloat
	m["fmt.Sprintf"] = inSprintf
	m["fmt.Sprint"] = func(e *Exec, st *State, ci *CallInfo) Outcome {
		return val(e.opaqueStr(st, "sprint", 4))
	}
	m["fmt.Errorf"] = func(e *Exec, st *State, ci *CallInfo) Outcome {
		unsupportedf("fmt.Errorf")
		return handled
	}
}

func (e *Exec) opaqueStr(st *State, prefix string, cap int) *Str {
	e.fresh++
	s, cons := e.NewSymStr(fmt.Sprintf("%s!%d", prefix, e.fresh), cap)
	for _, c := range cons {
		e.assumeTrusted(st, c)
	}
	return s
}

func (e *Exec) split(st *State, s, sep *Str, limit int) Outcome {
	if s.IsConc && sep.IsConc {
		var parts []string
		if limit < 0 {
			parts = strings.Split(s.Conc, sep.Conc)
		} else {
			parts = strings.SplitN(s.Conc, sep.Conc, limit)
		}
		out := make([]*Str, len(parts))
		for i, p := range parts {
			out[i] = e.ConcStr(p)
		}
		return val(e.mkStringSlice(st, out))
	}
	if !sep.IsConc || len(sep.Conc) != 1 {
		unsupportedf("strings.Split of symbolic string with separator that is not one concrete byte")
	}
	if limit == 0 {
		return val(&SliceV{})
	}
	c := e.C
	ckey := fmt.Sprintf("%p|%d|%d|%s|%d", s.Base, s.Off.ID, s.Len.ID, sep.Conc, limit)
	if pieces, ok := st.splits[ckey]; ok {
		return val(e.mkStringSlice(st, pieces))
	}
	isSep, rank, count := e.sepRanks(s, sep.Conc[0])
	maxN := s.Max
	if limit > 0 && limit-1 < maxN {
		// at most limit-1 splits; beyond that the rest stays in the last piece
		maxN = limit - 1
	}
	// find the largest feasible count first (cheap pruning of the alternatives)
	ub := 0
	for ub < maxN {
		if e.S.CheckWith(c.Sgt(count, e.i64(ub))) == smt.Unsat {
			break
		}
		ub++
	}
	var alts []AltOut
	for n := 0; n <= ub; n++ {
		n := n
		var cond *sym.Term
		if n == maxN && limit > 0 {
			cond = c.Sge(count, e.i64(n))
		} else {
			cond = c.Eq(count, e.i64(n))
		}
		pieces := e.splitPieces(s, isSep, rank, n)
		alts = append(alts, AltOut{Cond: cond, ValFn: func(s2 *State) (Value, bool) {
			if s2.splits == nil {
				s2.splits = map[string][]*Str{}
			}
			s2.splits[ckey] = pieces
			return e.mkStringSlice(s2, pieces), true
		}})
	}
	return Outcome{Kind: OutAlts, Alts: alts}
}

// ---------------------------------------------------------------- misc natives

func inParseFloat(e *Exec, st *State, ci *CallInfo) Outcome {
	c := e.C
	s := sArg(ci, 0)
	errT := e.errorValue(st, "strconv.ParseFloat: parsing: invalid syntax")
	if s.IsConc {
		f, err := strconv.ParseFloat(s.Conc, 64)
		if err != nil {
			return val(tuple(c.Int64(0), errT))
		}
		th := f * 1000
		if th != float64(int64(th)) {
			e.endPath(st, EndUnmodelled)
			e.Res.Notes["unmodelled: ParseFloat value with more than 3 decimals"]++
			return handled
		}
		return val(tuple(c.Int64(int64(th)), nilIface))
	}
	// language DIGIT+ ( "." DIGIT{0,3} )?  with at most 2 integer digits
	ls := s.Len
	isDigit := func(b *sym.Term) *sym.Term {
		return c.And(c.Ule(c.BV('0', 8), b), c.Ule(b, c.BV('9', 8)))
	}
	dig := func(k int) *sym.Term { // numeric value of byte k as BV64
		return c.Zext(c.Sub(e.at(s, k), c.BV('0', 8)), 64)
	}
	var alts []AltOut
	var shapes []*sym.Term
	// shapes: D, DD, D., D.D, D.DD, D.DDD (and DD. variants)
	for intDigits := 1; intDigits <= 2; intDigits++ {
		for frac := -1; frac <= 3; frac++ { // -1: no dot
			n := intDigits
			if frac >= 0 {
				n += 1 + frac
			}
			if n > s.Max {
				continue
			}
			conj := []*sym.Term{c.Eq(ls, e.i64(n))}
			value := c.Int64(0)
			for k := 0; k < intDigits; k++ {
				conj = append(conj, isDigit(e.at(s, k)))
				value = c.Add(c.Mul(value, c.Int64(10)), dig(k))
			}
			value = c.Mul(value, c.Int64(1000))
			if frac >= 0 {
				conj = append(conj, c.Eq(e.at(s, intDigits), c.BV('.', 8)))
				scale := int64(100)
				for k := 0; k < frac; k++ {
					pos := intDigits + 1 + k
					conj = append(conj, isDigit(e.at(s, pos)))
					value = c.Add(value, c.Mul(dig(pos), c.Int64(scale)))
					scale /= 10
				}
			}
			cond := c.And(conj...)
			shapes = append(shapes, cond)
			alts = append(alts, AltOut{Cond: cond, Val: tuple(value, nilIface)})
		}
	}
	// surely an error: empty, or some byte outside the float alphabet
	var tab [128]bool
	for _, ch := range "0123456789abcdefABCDEFxXpP+-._iInNtTyY" {
		tab[ch] = true
	}
	bad := []*sym.Term{c.Eq(ls, e.i64(0))}
	for k := 0; k < s.Max; k++ {
		bad = append(bad, c.And(c.Slt(e.i64(k), ls), c.Not(e.byteInTable(e.at(s, k), &tab))))
	}
	sureErr := c.Or(bad...)
	alts = append(alts, AltOut{Cond: sureErr, Val: tuple(c.Int64(0), errT)})
	other := c.Not(c.Or(append(shapes, sureErr)...))
	alts = append(alts, AltOut{Cond: other, Do: func(s2 *State) bool {
		e.endPath(s2, EndUnmodelled)
		e.Res.Notes["unmodelled: ParseFloat argument outside the summarised language"]++
		return false
	}})
	return Outcome{Kind: OutAlts, Exhaustive: true, Alts: alts}
}

// errorValue builds an error interface value (*errors.errorString).
func (e *Exec) errorValue(st *State, msg string) Value {
	pkg := e.Prog.ImportedPackage("errors")
	if pkg == nil {
		unsupportedf("package errors not loaded")
	}
	tn := pkg.Type("errorString")
	if tn == nil {
		unsupportedf("errors.errorString not found")
	}
	p := st.alloc(&StructV{F: []Value{e.ConcStr(msg)}}, tn.Type(), "error value")
	return &Iface{T: types.NewPointer(tn.Type()), V: p}
}

func (e *Exec) errorValueStr(st *State, msg *Str) Value {
	pkg := e.Prog.ImportedPackage("errors")
	tn := pkg.Type("errorString")
	p := st.alloc(&StructV{F: []Value{msg}}, tn.Type(), "error value")
	return &Iface{T: types.NewPointer(tn.Type()), V: p}
}

func inSprintf(e *Exec, st *State, ci *CallInfo) Outcome {
	format, ok := concStr(ci.Args[0])
	if !ok {
		return val(e.opaqueStr(st, "sprintf", 6))
	}
	var args []interface{}
	if sl, ok := ci.Args[1].(*SliceV); ok {
		for _, v := range e.sliceElems(st, sl) {
			ifc, ok := v.(*Iface)
			if !ok {
				return val(e.opaqueStr(st, "sprintf", 6))
			}
			if ifc.T == nil {
				args = append(args, nil)
				continue
			}
			switch x := ifc.V.(type) {
			case *Str:
				if !x.IsConc {
					return val(e.opaqueStr(st, "sprintf", 6))
				}
				args = append(args, x.Conc)
			case *sym.Term:
				cv, isC := x.ConstVal()
				if !isC {
					return val(e.opaqueStr(st, "sprintf", 6))
				}
				if x.W == 0 {
					args = append(args, cv == 1)
				} else if _, sg, ok := e.intWidth(ifc.T); ok && !sg {
					args = append(args, cv)
				} else {
					args = append(args, int(int64(cv)))
				}
			default:
				// opaque but deterministic rendering
				args = append(args, fmt.Sprintf("<%s>", ifc.T.String()))
			}
		}
	}
	return val(e.ConcStr(fmt.Sprintf(format, args...)))
}
