// Package exec is a path-forking symbolic executor for go/ssa form.
package exec

import (
	"fmt"
	"go/types"
	"strings"

	"golang.org/x/tools/go/ssa"

	"verif/engine/sym"
)

// Value is one of:
//
//	*sym.Term  (bool, integers at Go width, float64 as signed thousandths in BV64)
//	*Str       (string, []byte)
//	*StructV, *ArrayV, *SliceV, *Ptr, *MapRef, *ChanRef, *Iface, *Closure,
//	*TupleV, *Native, *ModelV
//
// All values are immutable; mutation replaces heap objects.
type Value interface{}

type StructV struct{ F []Value }
type ArrayV struct{ E []Value }
type TupleV struct{ E []Value }

// Ptr points into heap object Obj at the field/index path Path. Obj < 0 is nil.
type Ptr struct {
	Obj  int
	Path []int
}

var nilPtr = &Ptr{Obj: -1}

func (p *Ptr) IsNil() bool { return p.Obj < 0 }

func (p *Ptr) sub(i int) *Ptr {
	np := make([]int, len(p.Path)+1)
	copy(np, p.Path)
	np[len(p.Path)] = i
	return &Ptr{Obj: p.Obj, Path: np}
}

func (p *Ptr) key() string {
	var sb strings.Builder
	fmt.Fprintf(&sb, "%d", p.Obj)
	for _, i := range p.Path {
		fmt.Fprintf(&sb, ".%d", i)
	}
	return sb.String()
}

func ptrEq(a, b *Ptr) bool {
	if a.Obj != b.Obj {
		return false
	}
	if a.Obj < 0 {
		return true
	}
	if len(a.Path) != len(b.Path) {
		return false
	}
	for i := range a.Path {
		if a.Path[i] != b.Path[i] {
			return false
		}
	}
	return true
}

// SliceV is a slice over the array found at Arr. Arr == nil is the nil slice.
type SliceV struct {
	Arr           *Ptr
	Off, Len, Cap int
}

type MapRef struct{ Obj int }  // Obj < 0: nil map
type ChanRef struct{ Obj int } // Obj < 0: nil chan

// MapV is the heap content of a map: concrete keys in insertion order.
type MapV struct {
	K []Value
	V []Value
}

type ChanV struct {
	Q      []Value
	Cap    int
	Closed bool
}

type Iface struct {
	T types.Type // nil: nil interface
	V Value
}

var nilIface = &Iface{}

type Closure struct {
	Fn   *ssa.Function // nil: nil func
	Bind []Value
	// Intr names an intrinsic-only function value (no SSA body needed).
}

var nilClosure = &Closure{}

// Native wraps an opaque native Go value (e.g. *regexp.Regexp).
type Native struct{ V interface{} }

// ModelV is the immutable content of a stub object (gzip writer, mux, ...).
type ModelV struct {
	Kind string
	F    map[string]Value
}

func (m *ModelV) with(k string, v Value) *ModelV {
	n := &ModelV{Kind: m.Kind, F: make(map[string]Value, len(m.F)+1)}
	for kk, vv := range m.F {
		n.F[kk] = vv
	}
	n.F[k] = v
	return n
}

// Obj is a heap object.
type Obj struct {
	V     Value
	Epoch int
	Site  string
	Typ   types.Type
}

// ---------------------------------------------------------------- strings

// StrBase is the backing store of symbolic strings: cap cells of BV8.
type StrBase struct {
	Cells []*sym.Term
	mux   map[int]*sym.Term
	lower *StrBase
	upper *StrBase
	Name  string
}

// Str is an immutable view (Off, Len) onto a base, or a concrete string.
type Str struct {
	IsConc bool
	Conc   string
	Base   *StrBase
	Off    *sym.Term // BV64
	Len    *sym.Term // BV64
	Max    int       // upper bound on length
	Nil    bool      // nil []byte
	Enc    *EncInfo  // non-nil: opaque output of a compressor stream
	Codec  *CodecInfo // non-nil: opaque serialisation of a value by encoding/json or encoding/xml
}

func (s *Str) String() string {
	if s.IsConc {
		return fmt.Sprintf("%q", s.Conc)
	}
	return fmt.Sprintf("<str %s off=%v len=%v max=%d>", s.Base.Name, s.Off, s.Len, s.Max)
}

func describe(v Value) string {
	switch x := v.(type) {
	case nil:
		return "<nil-value>"
	case *sym.Term:
		return x.String()
	case *Str:
		return x.String()
	case *Ptr:
		return "ptr(" + x.key() + ")"
	case *StructV:
		return fmt.Sprintf("struct{%d}", len(x.F))
	case *Iface:
		if x.T == nil {
			return "iface(nil)"
		}
		return "iface(" + x.T.String() + ")"
	case *Closure:
		if x.Fn == nil {
			return "func(nil)"
		}
		return "func(" + x.Fn.String() + ")"
	}
	return fmt.Sprintf("%T", v)
}
