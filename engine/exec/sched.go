package exec

import (
	"fmt"
	"strconv"
	"strings"
)

// Bounded interleaving exploration (DESIGN 2.8b).
//
// verifRunSchedules executes the thread bodies registered with verifSpawn on
// ONE state, interleaved: a thread runs until it is about to acquire a lock
// (sync.Mutex / sync.RWMutex), where the scheduler may hand control to
// another thread (a preemption, bounded) or must do so (the lock is taken).
// Every schedule within the preemption bound is a path; when all threads have
// finished, the harness continues on the combined state and judges it.
// Context switches only at lock acquisitions are enough for programs whose
// shared accesses are ordered by locks, which the event-order race query of
// verifRunThreads establishes separately for the same thread set.

type schedThread struct {
	frames  []*Frame
	done    bool
	blocked bool // found its next lock taken; cleared by any release
	resumed bool // switched out at an acquisition that it re-executes when switched in
	pending bool // has just performed a channel operation: the scheduler may switch before its next instruction
	passing bool // was switched out at such a point: passes it (one trace entry) when switched in
}

type schedState struct {
	threads  []schedThread
	cur      int
	main     []*Frame
	preempts int
	trace    []int // thread id per lock acquisition, in global order
	tracePos []string
	wHold    map[string]int
	rHold    map[string][]int
	stuckMsg string
}

func (s *schedState) clone() *schedState {
	n := *s
	n.threads = make([]schedThread, len(s.threads))
	for i, t := range s.threads {
		n.threads[i] = t
		if t.frames != nil {
			n.threads[i].frames = make([]*Frame, len(t.frames))
			for j, f := range t.frames {
				n.threads[i].frames[j] = f.clone()
			}
		}
	}
	n.main = make([]*Frame, len(s.main))
	for j, f := range s.main {
		n.main[j] = f.clone()
	}
	n.trace = append([]int(nil), s.trace...)
	n.tracePos = append([]string(nil), s.tracePos...)
	n.wHold = make(map[string]int, len(s.wHold))
	for k, v := range s.wHold {
		n.wHold[k] = v
	}
	n.rHold = make(map[string][]int, len(s.rHold))
	for k, v := range s.rHold {
		n.rHold[k] = append([]int(nil), v...)
	}
	return &n
}

func (s *schedState) readers(key string, except int) int {
	n := 0
	for t, c := range s.rHold[key] {
		if t != except {
			n += c
		}
	}
	return n
}

func (s *schedState) traceString() string {
	parts := make([]string, len(s.trace))
	for i, t := range s.trace {
		parts[i] = strconv.Itoa(t)
	}
	return strings.Join(parts, ",")
}

// startSchedules begins interleaved execution of bodies; the calling frame has
// already been advanced past the call.
func (e *Exec) startSchedules(st *State, bodies []*Closure, preempts int, stuckMsg string) {
	sc := &schedState{preempts: preempts, wHold: map[string]int{}, rHold: map[string][]int{}, cur: -1, stuckMsg: stuckMsg}
	for _, b := range bodies {
		sc.threads = append(sc.threads, schedThread{frames: []*Frame{e.newFrame(b.Fn, nil, b.Bind)}})
	}
	sc.main = st.frames
	st.frames = nil
	st.sched = sc
	e.schedPickNext(st)
}

// schedSwitchTo makes thread t the running one (the previous one has been parked or has ended).
func schedSwitchTo(s *State, t int) {
	sc := s.sched
	sc.cur = t
	s.frames = sc.threads[t].frames
	sc.threads[t].frames = nil
}

// schedPickNext: the running thread has ended (or none has started yet): continue with any thread that is not
// done and not known to be blocked; when all are done, the main frames resume.
func (e *Exec) schedPickNext(st *State) {
	sc := st.sched
	var cands []int
	unfinished := 0
	for t := range sc.threads {
		if !sc.threads[t].done {
			unfinished++
			if !sc.threads[t].blocked {
				cands = append(cands, t)
			}
		}
	}
	if unfinished == 0 {
		e.addInput(st, "__schedule", "string", e.ConcStr(sc.traceString()))
		if e.SchedDebug {
			e.addInput(st, "__schedule_at", "string", e.ConcStr(strings.Join(sc.tracePos, " ")))
		}
		st.frames = sc.main
		st.sched = nil
		return
	}
	if len(cands) == 0 {
		e.schedStuck(st)
		return
	}
	if len(cands) == 1 {
		schedSwitchTo(st, cands[0])
		return
	}
	var alts []Alt
	for _, t := range cands {
		t := t
		alts = append(alts, Alt{Cond: e.C.True, Tag: fmt.Sprintf("sched:run=%d", t), Apply: func(s *State) { schedSwitchTo(s, t) }})
	}
	e.forkAlts(st, alts, st.Forks)
}

// schedThreadEnd is called by the run loop when the frame stack of the running thread is empty.
func (e *Exec) schedThreadEnd(st *State) {
	sc := st.sched
	sc.threads[sc.cur].done = true
	e.schedPickNext(st)
}

// schedAcquire models Lock/RLock in interleaved mode.
func (e *Exec) schedAcquire(st *State, ci *CallInfo, key string, write bool) Outcome {
	sc := st.sched
	cur := sc.cur
	if ci.deferredCall {
		unsupportedf("deferred lock acquisition in interleaved mode")
	}
	selfR := 0
	if r := sc.rHold[key]; cur < len(r) {
		selfR = r[cur]
	}
	if sc.wHold[key] == cur+1 || (write && selfR > 0) {
		return e.deadlock(st, "lock acquired again by the goroutine that holds it")
	}
	avail := sc.wHold[key] == 0
	if write {
		avail = avail && sc.readers(key, -1) == 0
	}
	acquire := func(s *State) {
		c := s.sched
		if write {
			c.wHold[key] = c.cur + 1
		} else {
			r := c.rHold[key]
			for len(r) < len(c.threads) {
				r = append(r, 0)
			}
			r[c.cur]++
			c.rHold[key] = r
		}
		e.schedTrace(s)
	}
	var others []int
	for t := range sc.threads {
		if t != cur && !sc.threads[t].done && !sc.threads[t].blocked {
			others = append(others, t)
		}
	}
	th := &sc.threads[cur]
	offer := !th.resumed && st.panicking == nil
	th.resumed = false
	var alts []AltOut
	if avail {
		alts = append(alts, AltOut{Cond: e.C.True, Do: func(s *State) bool { acquire(s); return true }})
	}
	if !avail || (offer && sc.preempts > 0) {
		for _, t := range others {
			t := t
			alts = append(alts, AltOut{Cond: e.C.True, Tag: fmt.Sprintf("sched:%d->%d", cur, t), Do: func(s *State) bool {
				c := s.sched
				me := &c.threads[c.cur]
				me.frames = s.frames
				me.resumed = true
				if avail {
					c.preempts--
				} else {
					me.blocked = true
				}
				schedSwitchTo(s, t)
				return false
			}})
		}
	}
	if len(alts) == 0 {
		e.schedStuck(st)
		return handled
	}
	if len(alts) == 1 && avail {
		acquire(st)
		return val(nil)
	}
	return Outcome{Kind: OutAlts, Exhaustive: true, Alts: alts}
}

// schedRelease models Unlock/RUnlock in interleaved mode. ok=false: the lock is not held that way.
func (e *Exec) schedRelease(st *State, key string, write bool) bool {
	sc := st.sched
	if write {
		if sc.wHold[key] == 0 {
			return false
		}
		sc.wHold[key] = 0
	} else {
		r := sc.rHold[key]
		// RUnlock by another goroutine than the one that locked is legal; prefer the current thread's count
		idx := -1
		if sc.cur < len(r) && r[sc.cur] > 0 {
			idx = sc.cur
		} else {
			for t, c := range r {
				if c > 0 {
					idx = t
					break
				}
			}
		}
		if idx < 0 {
			return false
		}
		r[idx]--
	}
	for t := range sc.threads {
		sc.threads[t].blocked = false
	}
	return true
}

// schedStuck: every unfinished thread waits for a lock another one holds.
func (e *Exec) schedStuck(st *State) {
	sc := st.sched
	e.addInput(st, "__schedule", "string", e.ConcStr(sc.traceString()))
	in := e.InputsUnder(st, e.pathModel(st))
	in["__finding"] = "every unfinished thread waits for a lock held by another one"
	st.mayFail = true
	e.Res.Violations = append(e.Res.Violations, Violation{Msg: sc.stuckMsg, Inputs: in, PathTag: "sched-stuck"})
	e.endPath(st, "deadlock")
}

// schedYield models verifYield(): an explicit point at which the scheduler may hand over (one preemption).
func (e *Exec) schedYield(st *State) Outcome {
	sc := st.sched
	if sc == nil {
		return val(nil)
	}
	th := &sc.threads[sc.cur]
	var others []int
	for t := range sc.threads {
		if t != sc.cur && !sc.threads[t].done && !sc.threads[t].blocked {
			others = append(others, t)
		}
	}
	if th.resumed || sc.preempts == 0 || len(others) == 0 || st.panicking != nil {
		th.resumed = false
		e.schedTrace(st)
		return val(nil)
	}
	alts := []AltOut{{Cond: e.C.True, Do: func(s *State) bool {
		e.schedTrace(s)
		return true
	}}}
	for _, t := range others {
		t := t
		alts = append(alts, AltOut{Cond: e.C.True, Tag: fmt.Sprintf("sched:%d->%d", sc.cur, t), Do: func(s *State) bool {
			c := s.sched
			me := &c.threads[c.cur]
			me.frames = s.frames
			me.resumed = true
			c.preempts--
			schedSwitchTo(s, t)
			return false
		}})
	}
	return Outcome{Kind: OutAlts, Exhaustive: true, Alts: alts}
}

// schedChanOp is called after a channel operation (send, receive, select) of the running thread in interleaved mode:
// channel operations synchronise, so the instruction boundary behind them is a switch point. Also wakes threads that
// were found blocked.
func (e *Exec) schedChanOp(st *State) {
	sc := st.sched
	if sc == nil || sc.cur < 0 {
		return
	}
	sc.threads[sc.cur].pending = true
	for t := range sc.threads {
		sc.threads[t].blocked = false
	}
}

// schedBlockOnChan: the running thread's channel operation cannot proceed now. It is parked at the instruction (which it
// re-executes when switched in); false when no other thread can run (stuck).
func (e *Exec) schedBlockOnChan(st *State) bool {
	sc := st.sched
	var others []int
	for t := range sc.threads {
		if t != sc.cur && !sc.threads[t].done && !sc.threads[t].blocked {
			others = append(others, t)
		}
	}
	if len(others) == 0 {
		e.schedStuck(st)
		return false
	}
	var alts []Alt
	for _, t := range others {
		t := t
		alts = append(alts, Alt{Cond: e.C.True, Tag: fmt.Sprintf("sched:%d->%d", sc.cur, t), Apply: func(s *State) {
			c := s.sched
			me := &c.threads[c.cur]
			me.frames = s.frames
			me.blocked = true
			schedSwitchTo(s, t)
		}})
	}
	e.forkAlts(st, alts, st.Forks)
	return true
}

// schedBoundary is called by the run loop before every instruction in interleaved mode; true when it changed the
// running thread or forked (the loop re-reads the state).
func (e *Exec) schedBoundary(st *State) bool {
	sc := st.sched
	if sc.cur < 0 {
		return false
	}
	th := &sc.threads[sc.cur]
	if th.passing {
		th.passing = false
		e.schedTrace(st)
	}
	if !th.pending {
		return false
	}
	th.pending = false
	var others []int
	for t := range sc.threads {
		if t != sc.cur && !sc.threads[t].done && !sc.threads[t].blocked {
			others = append(others, t)
		}
	}
	if sc.preempts == 0 || len(others) == 0 || st.panicking != nil || st.unwinding {
		e.schedTrace(st)
		return false
	}
	alts := []Alt{{Cond: e.C.True, Apply: func(s *State) {
		e.schedTrace(s)
	}}}
	for _, t := range others {
		t := t
		alts = append(alts, Alt{Cond: e.C.True, Tag: fmt.Sprintf("sched:%d->%d", sc.cur, t), Apply: func(s *State) {
			c := s.sched
			me := &c.threads[c.cur]
			me.frames = s.frames
			me.passing = true
			c.preempts--
			schedSwitchTo(s, t)
		}})
	}
	e.forkAlts(st, alts, st.Forks)
	return true
}

// schedTrace records that the running thread passes a turn-taking point (with its source position, for debugging).
func (e *Exec) schedTrace(st *State) {
	sc := st.sched
	sc.trace = append(sc.trace, sc.cur)
	pos := ""
	if len(st.frames) > 0 {
		for i := len(st.frames) - 1; i >= 0; i-- {
			fr := st.frames[i]
			if fr.idx < len(fr.block.Instrs) {
				if p := e.instrPos(fr, fr.block.Instrs[fr.idx]); p != "" && !strings.HasPrefix(p, "zz_verif_enc") {
					pos = p
					break
				}
			}
		}
	}
	sc.tracePos = append(sc.tracePos, fmt.Sprintf("%d@%s", sc.cur, pos))
}
