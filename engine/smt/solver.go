// Package smt drives one long-lived SMT solver process over a pipe
// (z3 -in / cvc5 --incremental), with push/pop-scoped define-funs for the
// hash-consed term DAG of package sym.
package smt

import (
	"bufio"
	"fmt"
	"io"
	"os"
	"os/exec"
	"strconv"
	"strings"
	"time"

	"verif/engine/sym"
)

type Result int

const (
	Unsat Result = iota
	Sat
	Unknown
)

func (r Result) String() string {
	switch r {
	case Unsat:
		return "unsat"
	case Sat:
		return "sat"
	}
	return "unknown"
}

type Stats struct {
	Queries   int
	Sat       int
	Unsat     int
	Unknown   int
	SolveTime time.Duration
	Resets    int
	Errors    []string
}

type Solver struct {
	Name    string
	cmd     *exec.Cmd
	in      io.WriteCloser
	out     *bufio.Reader
	ctx     *sym.Ctx
	defined map[int]int // term id -> 1 when named in the solver
	assume  [][]*sym.Term // assumption literals per level (see Check)
	declVar map[int]bool
	Stats   Stats
	Log     io.Writer // optional transcript
	buf     strings.Builder
	timeoutMs int
	SlowMs    int
	Tag       string
}

// Kinds of solver command lines.
func CommandFor(name string, timeoutMs int) []string {
	switch name {
	case "z3-new":
		return []string{"z3-new", "-in", fmt.Sprintf("-t:%d", timeoutMs)}
	case "z3":
		return []string{"z3", "-in", fmt.Sprintf("-t:%d", timeoutMs)}
	case "cvc5":
		return []string{"cvc5", "--incremental", "--lang=smt2", "--produce-models", fmt.Sprintf("--tlimit-per=%d", timeoutMs)}
	}
	panic("unknown solver " + name)
}

func New(name string, ctx *sym.Ctx, timeoutMs int) (*Solver, error) {
	argv := CommandFor(name, timeoutMs)
	cmd := exec.Command(argv[0], argv[1:]...)
	in, err := cmd.StdinPipe()
	if err != nil {
		return nil, err
	}
	outp, err := cmd.StdoutPipe()
	if err != nil {
		return nil, err
	}
	cmd.Stderr = os.Stderr
	if err := cmd.Start(); err != nil {
		return nil, err
	}
	s := &Solver{Name: name, cmd: cmd, in: in, out: bufio.NewReaderSize(outp, 1<<16), ctx: ctx,
		defined: map[int]int{}, assume: [][]*sym.Term{nil}, declVar: map[int]bool{}, timeoutMs: timeoutMs}
	s.send("(set-option :produce-models true)\n")
	// QF_BV makes z3 use its incremental SAT-based bit-vector solver (measured
	// 4-5x faster than the default incremental core on these queries). Only
	// Bool and BitVec terms are ever printed, so no assertion can be dropped;
	// any (error line still makes the query inconclusive.
	s.send("(set-logic QF_BV)\n")
	return s, nil
}

func (s *Solver) Close() {
	if s.cmd == nil {
		return
	}
	s.flush()
	s.in.Close()
	done := make(chan struct{})
	go func() { s.cmd.Wait(); close(done) }()
	select {
	case <-done:
	case <-time.After(2 * time.Second):
		s.cmd.Process.Kill()
	}
	s.cmd = nil
}

func (s *Solver) send(str string) {
	s.buf.WriteString(str)
}

func (s *Solver) flush() {
	if s.buf.Len() == 0 {
		return
	}
	if s.Log != nil {
		io.WriteString(s.Log, s.buf.String())
	}
	io.WriteString(s.in, s.buf.String())
	s.buf.Reset()
}

// Scoping is done with assumption literals instead of (push)/(pop): every
// term is named once, globally, by a constant and a defining equation (always
// true, so harmless for other paths); the assertions of the current scopes are
// passed to (check-sat-assuming). Measured on a header-stage run: push/pop
// re-sent 50 MB of definitions for 994 queries; with assumptions each term is
// sent once.
func (s *Solver) Level() int { return len(s.assume) - 1 }

func (s *Solver) Push() { s.assume = append(s.assume, nil) }

func (s *Solver) Pop() {
	if len(s.assume) <= 1 {
		panic("smt: pop at level 0")
	}
	s.assume = s.assume[:len(s.assume)-1]
}

// PopTo pops until the given level is current.
func (s *Solver) PopTo(level int) {
	for s.Level() > level {
		s.Pop()
	}
}

// Reset forgets everything (new harness run).
func (s *Solver) Reset() {
	s.send("(reset)\n(set-option :produce-models true)\n(set-logic QF_BV)\n")
	s.defined = map[int]int{}
	s.declVar = map[int]bool{}
	s.assume = [][]*sym.Term{nil}
}

// define makes sure t (and everything below) is known to the solver.
func (s *Solver) define(t *sym.Term) {
	// iterative post-order
	type fr struct {
		t *sym.Term
		i int
	}
	stack := []fr{{t, 0}}
	for len(stack) > 0 {
		f := &stack[len(stack)-1]
		cur := f.t
		if cur.Op == sym.OpConst {
			stack = stack[:len(stack)-1]
			continue
		}
		if cur.Op == sym.OpVar {
			if !s.declVar[cur.ID] {
				s.declVar[cur.ID] = true
				s.send(fmt.Sprintf("(declare-const %s %s)\n", sym.Ref(cur), sym.SortName(cur.W)))
			}
			stack = stack[:len(stack)-1]
			continue
		}
		if _, ok := s.defined[cur.ID]; ok {
			stack = stack[:len(stack)-1]
			continue
		}
		if f.i < len(cur.Args) {
			a := cur.Args[f.i]
			f.i++
			stack = append(stack, fr{a, 0})
			continue
		}
		s.defined[cur.ID] = 1
		// named by a constant plus a defining equation: z3 expands zero-ary
		// define-fun by substitution at parse time, which is exponential on a
		// DAG (measured: 11 s parse for a 796-line query on z3 4.8.12).
		s.send(fmt.Sprintf("(declare-const %s %s)\n(assert (= %s %s))\n", sym.Ref(cur), sym.SortName(cur.W), sym.Ref(cur), sym.Body(cur)))
		stack = stack[:len(stack)-1]
	}
}

func (s *Solver) Assert(t *sym.Term) {
	if t.W != 0 {
		panic("smt: assert non-bool")
	}
	s.define(t)
	top := len(s.assume) - 1
	s.assume[top] = append(s.assume[top], t)
}

func (s *Solver) readLine() (string, error) {
	line, err := s.out.ReadString('\n')
	return strings.TrimSpace(line), err
}

// Check runs (check-sat).
// GCLimit: when more than this many terms are named in the solver, it is reset
// and only the terms under the current assumptions are sent again. Definitions
// of abandoned paths otherwise slow every later query down.
var GCLimit = 12000

func (s *Solver) Check() Result {
	if len(s.defined) > GCLimit {
		keep := s.assume
		s.Reset()
		s.assume = keep
		for _, lv := range s.assume {
			for _, t := range lv {
				s.define(t)
			}
		}
		s.Stats.Resets++
	}
	var sb strings.Builder
	sb.WriteString("(check-sat-assuming (")
	seen := map[int]bool{}
	for _, lv := range s.assume {
		for _, t := range lv {
			if t.IsTrue() || seen[t.ID] {
				continue
			}
			seen[t.ID] = true
			if t.IsFalse() {
				s.Stats.Queries++
				s.Stats.Unsat++
				return Unsat
			}
			if t.Op == sym.OpNot {
				sb.WriteString("(not " + sym.Ref(t.Args[0]) + ") ")
			} else {
				sb.WriteString(sym.Ref(t) + " ")
			}
		}
	}
	sb.WriteString("))\n")
	s.send(sb.String())
	s.flush()
	t0 := time.Now()
	line, err := s.readLine()
	for err == nil && line == "" {
		line, err = s.readLine()
	}
	el := time.Since(t0)
	s.Stats.SolveTime += el
	s.Stats.Queries++
	if s.SlowMs > 0 && el > time.Duration(s.SlowMs)*time.Millisecond {
		fmt.Fprintf(os.Stderr, "slow query %v: %s -> %s\n", el, s.Tag, line)
	}
	if err != nil {
		s.Stats.Errors = append(s.Stats.Errors, "read: "+err.Error())
		s.Stats.Unknown++
		return Unknown
	}
	switch line {
	case "sat":
		s.Stats.Sat++
		return Sat
	case "unsat":
		s.Stats.Unsat++
		return Unsat
	case "unknown", "timeout":
		s.Stats.Unknown++
		return Unknown
	}
	// (error ...) or anything else: inconclusive
	s.Stats.Errors = append(s.Stats.Errors, line)
	s.Stats.Unknown++
	return Unknown
}

// CheckAssuming checks the current assertions plus extra, without keeping it.
func (s *Solver) CheckWith(extra ...*sym.Term) Result {
	s.Push()
	for _, e := range extra {
		s.Assert(e)
	}
	r := s.Check()
	s.Pop()
	return r
}

// Model returns values for all declared variables of the context (after Sat).
func (s *Solver) Model() (sym.Model, error) {
	var vars []*sym.Term
	for _, v := range s.ctx.Vars {
		if s.declVar[v.ID] {
			vars = append(vars, v)
		}
	}
	m := sym.Model{}
	if len(vars) == 0 {
		return m, nil
	}
	var sb strings.Builder
	sb.WriteString("(get-value (")
	for _, v := range vars {
		sb.WriteString(sym.Ref(v))
		sb.WriteString(" ")
	}
	sb.WriteString("))\n")
	s.send(sb.String())
	s.flush()
	// read a balanced s-expression
	depth := 0
	started := false
	var text strings.Builder
	for {
		r, _, err := s.out.ReadRune()
		if err != nil {
			return nil, err
		}
		if r == '|' {
			text.WriteRune(r)
			for {
				r2, _, err := s.out.ReadRune()
				if err != nil {
					return nil, err
				}
				text.WriteRune(r2)
				if r2 == '|' {
					break
				}
			}
			continue
		}
		text.WriteRune(r)
		if r == '(' {
			depth++
			started = true
		} else if r == ')' {
			depth--
		}
		if started && depth == 0 {
			break
		}
	}
	str := text.String()
	if strings.Contains(str, "(error") {
		return nil, fmt.Errorf("solver error in get-value: %s", str)
	}
	toks := tokenize(str)
	// expect ( ( name val ) ( name val ) ... )
	byName := map[string]*sym.Term{}
	for _, v := range vars {
		byName[v.Name] = v
	}
	i := 0
	if toks[i] != "(" {
		return nil, fmt.Errorf("bad get-value reply: %s", str)
	}
	i++
	for i < len(toks) && toks[i] == "(" {
		i++
		name := strings.Trim(toks[i], "|")
		i++
		// value: token or parenthesised (e.g. (_ bv5 8))
		var val uint64
		if toks[i] == "(" {
			// (_ bvN w)
			if toks[i+1] == "_" && strings.HasPrefix(toks[i+2], "bv") {
				n, _ := strconv.ParseUint(toks[i+2][2:], 10, 64)
				val = n
			}
			for toks[i] != ")" {
				i++
			}
			i++
		} else {
			tk := toks[i]
			i++
			switch {
			case tk == "true":
				val = 1
			case tk == "false":
				val = 0
			case strings.HasPrefix(tk, "#x"):
				n, _ := strconv.ParseUint(tk[2:], 16, 64)
				val = n
			case strings.HasPrefix(tk, "#b"):
				n, _ := strconv.ParseUint(tk[2:], 2, 64)
				val = n
			default:
				return nil, fmt.Errorf("bad value token %q", tk)
			}
		}
		if toks[i] != ")" {
			return nil, fmt.Errorf("bad get-value reply near %q", toks[i])
		}
		i++
		if v, ok := byName[name]; ok {
			m[v.ID] = val
		}
	}
	return m, nil
}

func tokenize(s string) []string {
	var toks []string
	i := 0
	for i < len(s) {
		ch := s[i]
		switch {
		case ch == '(' || ch == ')':
			toks = append(toks, string(ch))
			i++
		case ch == ' ' || ch == '\n' || ch == '\t' || ch == '\r':
			i++
		case ch == '|':
			j := i + 1
			for j < len(s) && s[j] != '|' {
				j++
			}
			toks = append(toks, s[i:j+1])
			i = j + 1
		default:
			j := i
			for j < len(s) && !strings.ContainsRune("() \n\t\r", rune(s[j])) {
				j++
			}
			toks = append(toks, s[i:j])
			i = j
		}
	}
	return toks
}
