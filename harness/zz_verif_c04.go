package restful

import "strings"

// H_C04: path parameters are bound to exactly the URL text they stand for.
// stage 0: value views; stage 3: additionally the substitute-back round trip at a small capacity; stage 5: as 0 after
// Container.Router was called again with the other router and then with this one.
func H_C04(tbl, router, stage int) {
	t := vTableFor(tbl)
	h := vNewH(t)
	c := h.build(vRouter(router))
	pathCap, maxSeg := 12, 3
	if stage == 5 || stage == 15 {
		// the container's router was configured more than once: the other one in between
		c.Router(vRouter(1 - router))
		c.Router(vRouter(router))
		verifCover("router-set-again")
		stage -= 5
	}
	if stage == 3 {
		pathCap = 8
	}
	if stage >= 10 {
		stage, pathCap, maxSeg = vDeep(stage, pathCap, maxSeg)
	}
	q := vReq{method: "GET"}
	q.path = nondetString("path", pathCap)
	if vMinSegs > maxSeg {
		maxSeg = vMinSegs // the table has longer templates than the usual bound
	}
	verifAssume(strings.Count(strings.Trim(q.path, "/"), "/") < maxSeg)
	vKnownRouting(q, router)
	o := h.run(c, q)
	if o.panicked || o.invoked < 0 {
		verifCover("not-invoked")
		return
	}
	verifCover("invoked")
	verifObserveInt("route", o.invoked)
	segs, canon := vSegments(q.path)
	f := h.flat[o.invoked]
	judged := vAnd(canon, refPathMatch(f.toks, segs) == refYes)
	verifCoverIf("judged", judged)
	nvars := 0
	rebuilt := ""
	for i, tk := range f.toks {
		if tk.kind == tkLit {
			rebuilt += "/" + tk.lit
			if tk.verb != "" {
				rebuilt += ":" + tk.verb
			}
			continue
		}
		nvars++
		val, ok := o.params[tk.name]
		verifAssert(ok, "C04: a declared path variable is not bound")
		verifObserveStr("p_"+tk.name, val)
		if i >= len(segs) {
			continue
		}
		if tk.kind == tkTail {
			exp := strings.Join(segs[i:], "/")
			// RouterJSR311 keeps the request's trailing slash in the tail value (excluded like in C14)
			j := vAnd(judged, !vAnd(router == 1, strings.HasSuffix(q.path, "/")))
			verifAssert(vImp(j, val == exp), "C04: tail wildcard is not bound to the remaining segments joined by '/'")
			rebuilt += "/" + val
			break
		}
		seg := segs[i]
		if tk.verb != "" {
			seg = vSubstr(seg, 0, len(seg)-len(tk.verb)-1)
		}
		exp := vSubstr(seg, len(tk.pre), len(seg)-len(tk.suf))
		verifAssert(vImp(judged, val == exp), "C04: path variable is not bound to the URL segment at its position")
		rebuilt += "/" + tk.pre + val + tk.suf
		if tk.verb != "" {
			rebuilt += ":" + tk.verb
		}
	}
	verifAssert(len(o.params) == nvars, "C04: names other than the declared path variables are bound")
	if stage == 3 {
		if rebuilt == "" {
			rebuilt = "/"
		}
		want := q.path
		if q.path != "/" {
			want = strings.TrimRight(q.path, "/")
		}
		j := vAnd(judged, !vAnd(router == 1, strings.HasSuffix(q.path, "/")))
		verifAssert(vImp(j, rebuilt == want), "C04: substituting the bound values into the template does not reproduce the request path")
	}
}
