package restful

import (
	"net/http"
	"net/url"
	"strings"
)

var vCorsHeaders = []string{
	HEADER_AccessControlAllowOrigin, HEADER_AccessControlAllowCredentials, HEADER_AccessControlAllowMethods,
	HEADER_AccessControlAllowHeaders, HEADER_AccessControlExposeHeaders, HEADER_AccessControlMaxAge,
}

func vHdrReq(method, path string, hdr map[string]string) *http.Request {
	h := http.Header{}
	for k, v := range hdr {
		if v != "" {
			h[k] = []string{v}
		}
	}
	return &http.Request{Method: method, URL: &url.URL{Path: path}, Header: h}
}

func vAnyCors(rec *vRec) bool {
	for _, k := range vCorsHeaders {
		if len(rec.out()[k]) > 0 {
			return true
		}
	}
	return false
}

func vHdr1(rec *vRec, k string) string {
	if v := rec.out()[k]; len(v) > 0 {
		return v[0]
	}
	return ""
}

type vCorsCfg struct {
	domains  []string
	hasFunc  bool
	funcAcc  string // the predicate accepts exactly this string
	funcAccP *string // when set: the predicate reads the accepted string from here (it may change between requests)
	cookies  bool
	methods  []string // configured AllowedMethods (nil: computed from the container)
	headers  []string // configured AllowedHeaders
	expose   []string
	maxAge   int
}

func (k vCorsCfg) filter(c *Container) CrossOriginResourceSharing {
	cors := CrossOriginResourceSharing{
		AllowedDomains: k.domains, CookiesAllowed: k.cookies, Container: c,
		AllowedMethods: k.methods, AllowedHeaders: k.headers, ExposeHeaders: k.expose, MaxAge: k.maxAge,
	}
	if k.hasFunc {
		acc := k.funcAcc
		accP := k.funcAccP
		cors.AllowedDomainFunc = func(o string) bool {
			if accP != nil {
				return o == *accP
			}
			return o == acc
		}
	}
	return cors
}

// refOriginAllowed: the weakest reading of "allowed by the configuration".
func (k vCorsCfg) refOriginAllowed(origin string) bool {
	lo := strings.ToLower(origin)
	fn := false
	if k.hasFunc {
		fn = vOr(origin == k.funcAcc, lo == k.funcAcc)
	}
	if len(k.domains) == 0 {
		if !k.hasFunc {
			return true
		}
		return fn
	}
	ok := fn
	for _, d := range k.domains {
		ok = vOr(ok, vOr(d == ".*", strings.ToLower(d) == lo))
	}
	return ok
}

// vCorsContainer: one service /t with GET /a and POST /b, a marker filter
// behind the CORS filter, and a filter-less twin.
func vCorsContainer(h *vH, k vCorsCfg, withCors bool) *Container {
	c := h.build(CurlyRouter{})
	if withCors {
		cors := k.filter(c) // a variable, so that the harness compiles for value and pointer receivers alike
		c.Filter(cors.Filter)
	}
	c.Filter(func(req *Request, resp *Response, chain *FilterChain) {
		h.events = append(h.events, "later-filter")
		chain.ProcessFilter(req, resp)
	})
	return c
}

var vCorsTable = vTable{services: []vService{{root: "/t", routes: []vRoute{{method: "GET", path: "/a"}, {method: "POST", path: "/b"}, {method: "OPTIONS", path: "/a"}}}}}

func vCorsDomains(n, capN int) []string {
	var d []string
	for i := 0; i < n; i++ {
		d = append(d, nondetString("dom"+vItoa(i), capN))
	}
	return d
}

// H_C08: CORS headers are granted only to allowed origins, echoing the origin.
// cfg: number of allowed domains (0..2) + 3*(predicate configured)
func H_C08(cfg int) {
	capN := 6
	if cfg >= 100 { // thorough bounds
		cfg -= 100
		capN = 11
	}
	k := vCorsCfg{domains: vCorsDomains(cfg%3, capN), hasFunc: (cfg/3)%2 == 1, cookies: nondetBool("cookies"), expose: []string{"X-E"}, maxAge: 5}
	origin := nondetString("origin", capN)
	accNow := ""
	if k.hasFunc {
		k.funcAcc = nondetString("funcacc", capN)
		accNow = k.funcAcc
		k.funcAccP = &accNow
	}
	h := vNewH(vCorsTable)
	c := vCorsContainer(h, k, true)
	ht := vNewH(vCorsTable)
	twin := vCorsContainer(ht, k, false)
	if k.hasFunc && nondetBool("earlier-accepted") {
		// an earlier request from the same origin, at a time when the predicate accepted it: what the predicate
		// said then must not be remembered
		accNow = strings.ToLower(origin)
		h.dispatch(c, vNewRec(), vHdrReq("GET", "/t/a", map[string]string{"Origin": origin}))
		accNow = k.funcAcc
		h.invoked, h.events = nil, nil
		verifCover("predicate-changed-its-mind")
	}
	method := nondetString("method", 7)
	acrm := nondetString("acrm", 4)
	hdr := map[string]string{"Origin": origin, HEADER_AccessControlRequestMethod: acrm}
	// /t/a has a route for OPTIONS, /t/b has routes but none for OPTIONS
	url := []string{"/t/a", "/t/b"}[nondetChoice("url", 2)]
	rec := vNewRec()
	h.dispatch(c, rec, vHdrReq(method, url, hdr))
	rect := vNewRec()
	ht.dispatch(twin, rect, vHdrReq(method, url, hdr))
	allowed := k.refOriginAllowed(origin)
	verifCoverIf("allowed", vAnd(allowed, len(origin) > 0))
	verifCoverIf("refused", !allowed)
	granted := vAnyCors(rec)
	if granted {
		verifCover("granted")
		verifAssert(len(origin) > 0, "C08: CORS headers on a response to a request without Origin")
		verifAssert(allowed, "C08: CORS headers granted to an origin the configuration does not allow")
		ao := rec.out()[HEADER_AccessControlAllowOrigin]
		if len(ao) > 0 {
			verifAssert(len(ao) == 1, "C08: Access-Control-Allow-Origin appears more than once")
			verifAssert(ao[0] == origin, "C08: Access-Control-Allow-Origin is not the request's Origin verbatim")
		}
		if len(rec.out()[HEADER_AccessControlAllowCredentials]) > 0 {
			verifAssert(k.cookies, "C08: credentials granted although not configured")
		}
	} else {
		verifCover("not-granted")
	}
	// no Origin or disallowed: exactly as if the filter were absent
	same := rec.code() == rect.code() && len(h.invoked) == len(ht.invoked) && len(h.events) == len(ht.events)
	verifAssert(vImp(vOr(len(origin) == 0, !allowed), vAnd(same, !granted)), "C08: a request without Origin or from a disallowed origin is not processed as if the filter were absent")
	verifObserveInt("status", rec.code())
	verifObserveBool("granted", granted)
}

// refHeadersAllowed: every requested header (comma separated, optional spaces)
// is among the allowed headers ignoring case, or a wildcard entry is configured.
func refHeadersAllowed(allowed []string, acrh string, maxItems int) bool {
	wild := vContains(allowed, "*")
	if wild {
		return true
	}
	ok := true
	rest := acrh
	more := true
	for i := 0; i < maxItems; i++ {
		ci := strings.Index(rest, ",")
		has := ci != -1
		item := strings.ToLower(strings.Trim(vIteStr(has, vSubstr(rest, 0, ci), rest), " "))
		in := false
		for _, a := range allowed {
			in = vOr(in, strings.ToLower(a) == item)
		}
		ok = vAnd(ok, vOr(!more, in))
		rest = vSubstr(rest, ci+1, len(rest))
		more = vAnd(more, has)
	}
	return vOr(len(acrh) == 0, ok)
}

// H_C09: CORS preflight is answered by the filter alone and grants only what is allowed.
// cfg: 0 configured methods [GET,PUT]; 1 methods computed from the container;
//      +2: allowed headers contain the wildcard
func H_C09(cfg int) {
	acrhCap, items, ahCap := 8, 2, 4
	deep := false
	if cfg >= 100 { // thorough bounds
		cfg -= 100
		acrhCap, items, ahCap = 13, 3, 6
		deep = true // (the second header line stays with the smaller bounds: both together exceed the time budget)
	}
	// cfg + 4: the request's own Host is the host the Origin names (a page calling its own server with an Origin header)
	hostSame := cfg >= 4
	cfg = cfg % 4
	k := vCorsCfg{cookies: nondetBool("cookies"), maxAge: 5}
	if cfg%2 == 0 {
		k.methods = []string{"GET", "PUT"}
	}
	k.headers = []string{nondetString("ah0", ahCap), "X-B"}
	if cfg/2 == 1 {
		k.headers = append(k.headers, "*")
	}
	h := vNewH(vCorsTable)
	c := vCorsContainer(h, k, true)
	acrm := nondetString("acrm", 5)
	acrh := nondetString("acrh", acrhCap)
	verifAssume(strings.Count(acrh, ",") < items)
	method := nondetString("method", 7)
	urlSel := nondetChoice("url", 2)
	path := []string{"/t/a", "/t/b"}[urlSel]
	hdr := map[string]string{"Origin": "http://o", HEADER_AccessControlRequestMethod: acrm, HEADER_AccessControlRequestHeaders: acrh}
	// a first preflight to the other URL must not influence this one ("must not stick")
	if !hostSame && nondetBool("warmup") {
		recw := vNewRec()
		h.dispatch(c, recw, vHdrReq("OPTIONS", []string{"/t/b", "/t/a"}[urlSel], map[string]string{"Origin": "http://o", HEADER_AccessControlRequestMethod: "GET"}))
		h.invoked, h.events = nil, nil
		verifCover("after-warmup")
	}
	rec := vNewRec()
	hreq := vHdrReq(method, path, hdr)
	// the request's own host may be the origin's host (a page calling its own server with an Origin header), in any case
	if hostSame {
		hreq.Host = []string{"o", "O"}[nondetChoice("host", 2)]
		verifCover("origin-names-the-request-host")
	}
	// a list-valued header may arrive on more than one line: a second Access-Control-Request-Headers line with one name
	acrh2 := ""
	if len(acrh) > 0 && !hostSame && !deep && nondetBool("second-line") {
		acrh2 = nondetString("acrh2", ahCap)
		verifAssume(vAnd(len(acrh2) > 0, !strings.Contains(acrh2, ",")))
		hreq.Header.Add(HEADER_AccessControlRequestHeaders, acrh2)
		verifCover("two-header-lines")
	}
	h.dispatch(c, rec, hreq)
	preflight := vAnd(method == "OPTIONS", len(acrm) > 0)
	// allowed methods: configured, or the methods routable at that URL
	var allowedM []string
	if k.methods != nil {
		allowedM = k.methods
	} else if urlSel == 0 {
		allowedM = []string{"GET", "OPTIONS"}
	} else {
		allowedM = []string{"POST"}
	}
	mOK := refMediaIn(allowedM, acrm)
	hOK := vAnd(refHeadersAllowed(k.headers, acrh, items), vOr(len(acrh2) == 0, refHeadersAllowed(k.headers, acrh2, 1)))
	granted := vAnyCors(rec)
	verifObserveBool("granted", granted)
	verifObserveInt("status", rec.code())
	if method == "OPTIONS" && len(acrm) > 0 {
		verifCover("preflight")
		verifAssert(len(h.invoked) == 0 && len(h.events) == 0, "C09: a preflight request reached a later filter or a route function")
		if granted {
			verifCover("preflight-granted")
			verifAssert(vAnd(mOK, hOK), "C09: preflight granted although the requested method or a requested header is not allowed")
			// Allow-Methods and Allow-Headers are list-valued and may be sent on several lines; Allow-Origin is one value
			verifAssert(len(rec.out()[HEADER_AccessControlAllowMethods]) >= 1 && len(rec.out()[HEADER_AccessControlAllowOrigin]) == 1,
				"C09: a granted preflight lacks Allow-Methods/Allow-Origin or repeats Allow-Origin")
			verifAssert(strings.Join(rec.out()[HEADER_AccessControlAllowMethods], ",") == strings.Join(allowedM, ","), "C09: Access-Control-Allow-Methods is not the allowed method list")
			for _, line := range rec.out()[HEADER_AccessControlAllowHeaders] {
				verifAssert(refHeadersAllowed(k.headers, line, items+1), "C09: Access-Control-Allow-Headers names a header that is not allowed")
			}
		} else {
			verifCover("preflight-refused")
			verifAssert(!vAnd(mOK, hOK), "C09: an allowed preflight received no CORS grant")
		}
	} else {
		verifCover("actual")
		_ = preflight
		// actual request from an allowed origin: proceeds, headers added once
		later := 0
		for _, ev := range h.events {
			if ev == "later-filter" {
				later++
			}
		}
		verifAssert(later == 1, "C09: an actual request from an allowed origin did not proceed down the chain exactly once")
		verifAssert(len(rec.out()[HEADER_AccessControlAllowOrigin]) == 1 && vHdr1(rec, HEADER_AccessControlAllowOrigin) == "http://o", "C09: actual request lacks a single Access-Control-Allow-Origin")
		verifAssert(len(rec.out()[HEADER_AccessControlMaxAge]) == 1, "C09: Access-Control-Max-Age not added exactly once")
		verifAssert(len(rec.out()[HEADER_AccessControlAllowCredentials]) == vIte(k.cookies, 1, 0), "C09: Access-Control-Allow-Credentials not added exactly when configured")
		verifAssert(len(rec.out()[HEADER_AccessControlAllowMethods]) == 0, "C09: an actual request received preflight headers")
	}
}

// H_C08_two: two CORS filters with different configurations in one chain (container: no restriction;
// WebService: one symbolic allowed domain, cookies on). What the inner filter grants must follow the inner
// configuration: credentials are only configured there.
func H_C08_two(cfg int) {
	inner := vCorsCfg{domains: vCorsDomains(1, 6), cookies: true}
	outer := vCorsCfg{}
	h := vNewH(vCorsTable)
	c := NewContainer()
	oc := outer.filter(c)
	c.Filter(oc.Filter)
	ws := new(WebService)
	ws.Path("/t")
	ic := inner.filter(c)
	ws.Filter(ic.Filter)
	ws.Route(ws.GET("/a").To(h.routeFn(0)))
	c.Add(ws)
	origin := nondetString("origin", 6)
	rec := vNewRec()
	h.dispatch(c, rec, vHdrReq("GET", "/t/a", map[string]string{"Origin": origin}))
	innerAllows := inner.refOriginAllowed(origin)
	verifCoverIf("inner-refuses", vAnd(len(origin) > 0, !innerAllows))
	verifCoverIf("inner-allows", vAnd(len(origin) > 0, innerAllows))
	verifObserveInt("status", rec.code())
	if len(rec.out()[HEADER_AccessControlAllowCredentials]) > 0 {
		verifAssert(innerAllows, "C08: credentials granted by a filter whose configuration does not allow the origin")
	}
	n := len(rec.out()[HEADER_AccessControlAllowOrigin])
	verifAssert(vImp(!innerAllows, n <= 1), "C08: a second Access-Control-Allow-Origin was added by a filter whose configuration does not allow the origin")
	for _, v := range rec.out()[HEADER_AccessControlAllowOrigin] {
		verifAssert(v == origin, "C08: Access-Control-Allow-Origin is not the request's Origin verbatim")
	}
}
