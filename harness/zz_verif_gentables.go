package restful

// Generated route tables (configuration numbers >= 1000): every unordered pair
// of templates from a small grammar, registered on the service /t, either with
// the same method (specificity, tie-breaks) or with different ones (405, Allow).
// The same enumeration is mirrored in /verif/engine/cmd/gosmt/gentables.go.

// segment kinds; the bool says "Curly only"
var vGenSegs = []struct {
	text  string
	curly bool
	last  bool // may only stand in last position
}{
	{"a", false, false}, {"b", false, false}, {"{v}", false, false}, {"{v:[0-9]+}", false, false}, {"{v:[0-9]*}", false, false},
	{"ab{v}ba", true, false}, {"{v}.x", true, false}, {"p{v}", true, false},
	{"a:go", true, true}, {"{v}:go", true, true}, {"{v:*}", false, true},
}

type vGenTpl struct {
	path  string
	curly bool
	plain bool // literals and plain variables only (the fragment both routers document)
}

func vGenName(seg string, pos int) string {
	// distinct variable names per position
	out := ""
	for i := 0; i < len(seg); i++ {
		if seg[i] == 'v' && i > 0 && seg[i-1] == '{' {
			out += string(rune('v' + pos))
		} else {
			out += string(seg[i])
		}
	}
	return out
}

func vGenTemplates() []vGenTpl {
	var out []vGenTpl
	isPlain := func(s string) bool { return s == "a" || s == "b" || s == "{v}" }
	for _, s := range vGenSegs {
		out = append(out, vGenTpl{path: "/" + vGenName(s.text, 0), curly: s.curly, plain: isPlain(s.text)})
	}
	for _, first := range []int{0, 2} { // "a" or "{v}" in front
		f := vGenSegs[first]
		for _, s := range vGenSegs {
			out = append(out, vGenTpl{path: "/" + vGenName(f.text, 0) + "/" + vGenName(s.text, 1), curly: s.curly, plain: isPlain(s.text)})
		}
	}
	return out
}

// vGenCount: number of generated tables.
func vGenCount() int {
	n := len(vGenTemplates())
	return n * (n + 1) / 2 * 2
}

func vGenDecode(g int) (i, j, variant int) {
	n := len(vGenTemplates())
	variant = g % 2
	g /= 2
	for i = 0; i < n; i++ {
		row := n - i
		if g < row {
			return i, i + g, variant
		}
		g -= row
	}
	return 0, 0, 0
}

func vGenTable(g int) vTable {
	t := vGenTemplates()
	i, j, variant := vGenDecode(g)
	m2 := "GET"
	if variant == 1 {
		m2 = "POST"
	}
	routes := []vRoute{{method: "GET", path: t[i].path}}
	if i != j || variant == 1 {
		routes = append(routes, vRoute{method: m2, path: t[j].path})
	}
	return vTable{services: []vService{{root: "/t", routes: routes}}}
}

// Generated media tables (configuration numbers >= 5000): two routes on /t/a, each with a method from
// {GET, POST} and Consumes / Produces lists from {none, [a/j], [a/j, a/x], [*/*]}; unordered pairs.
var vGenLists = [][]string{nil, {"a/j"}, {"a/j", "a/x"}, {"*/*"}}

func vGenMediaRoute(k int) vRoute {
	m := []string{"GET", "POST"}[k%2]
	k /= 2
	c := vGenLists[k%4]
	k /= 4
	p := vGenLists[k%4]
	return vRoute{method: m, path: "/a", consumes: c, produces: p}
}

const vGenMediaRoutes = 32 // 2 methods x 4 consumes x 4 produces

func vGenMediaTable(g int) vTable {
	n := vGenMediaRoutes
	i := 0
	for i = 0; i < n; i++ {
		row := n - i
		if g < row {
			break
		}
		g -= row
	}
	j := i + g
	routes := []vRoute{vGenMediaRoute(i)}
	if i != j {
		routes = append(routes, vGenMediaRoute(j))
	}
	return vTable{services: []vService{{root: "/t", routes: routes}}}
}

// ---------------------------------------------------------------- generated root-path tables (configuration numbers >= 3000)

// vGenRoots: root path shapes of WebServices. Every unordered pair (and every single one) becomes a table of one or
// two services, each with the routes GET / and GET /e. Mirrored in /verif/engine/cmd/gosmt/gentables.go.
var vGenRoots = []string{"/a", "/a/b", "/{v}", "/{v:[0-9]+}", "/{v}.x", "/p{v}", "/a/{v}", "/{v}/b", "/a/{v}.x", "/{v:[0-9]*}", "/", "/a/{v:[0-9]+}", "/{v}/{u}"}

func vGenRootDecode(g int) (i, j int) {
	n := len(vGenRoots)
	for i = 0; i < n; i++ {
		row := n - i
		if g < row {
			return i, i + g
		}
		g -= row
	}
	return 0, 0
}

func vGenRootTable(g int) vTable {
	i, j := vGenRootDecode(g)
	rename := func(root string, name byte) string {
		out := ""
		for k := 0; k < len(root); k++ {
			if root[k] == 'v' && k > 0 && root[k-1] == '{' {
				out += string(rune(name))
			} else {
				out += string(root[k])
			}
		}
		return out
	}
	routes := func() []vRoute { return []vRoute{{method: "GET", path: "/"}, {method: "GET", path: "/e"}} }
	t := vTable{services: []vService{{root: rename(vGenRoots[i], 'v'), routes: routes()}}}
	if j != i {
		t.services = append(t.services, vService{root: rename(vGenRoots[j], 'w'), routes: routes()})
	}
	return t
}
