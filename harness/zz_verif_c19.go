package restful

import (
	"net/http"
	"strings"
)

func vHeaderString(h http.Header) string {
	s := ""
	for _, k := range []string{"Allow", "Content-Type", "Content-Encoding", HEADER_AccessControlAllowOrigin, HEADER_AccessControlAllowMethods,
		HEADER_AccessControlAllowHeaders, HEADER_AccessControlAllowCredentials, HEADER_AccessControlMaxAge, HEADER_AccessControlExposeHeaders} {
		for _, v := range h[k] {
			s += k + "=" + v + ";"
		}
	}
	return s
}

// H_C19 family 0: routing. The same symbolic request is served three times on one
// container (second time after the first, third time with trace logging on);
// all three must agree, nothing that outlives the request may be written, and
// what the handler saw the first time must not be visible to the second.
func H_C19_route(tbl, router int) {
	stage := 0
	if router >= 10 { // thorough bounds
		router -= 10
		stage = 10
	}
	t := vTableFor(tbl)
	h := vNewH(t)
	c := h.build(vRouter(router))
	q := vSymRequest(stage, 12, 3, nil)
	fp1 := verifFingerprint(c)
	verifFrameBegin("dispatch", h)
	o1 := h.run(c, q)
	verifFrameEnd()
	verifAssert(verifFingerprint(c) == fp1, "native: C19: serving a request changed configuration state")
	verifAssert(vContainerLocksFree(c), "C19: a lock is still held after the request")
	if o1.invoked >= 0 {
		verifCover("invoked")
		verifObserveInt("route", o1.invoked)
		// scribble on what the first request's handler received
		for k := range o1.params {
			o1.params[k] = "\xffscribbled"
		}
		if o1.params != nil {
			o1.params["\xffleft-behind"] = "x" // a filter may publish something to later filters this way
		}
	} else {
		verifCover("not-invoked")
		verifObserveInt("status", o1.status)
	}
	o2 := h.run(c, q)
	same := o1.panicked == o2.panicked && o1.invoked == o2.invoked && o1.status == o2.status && o1.allow == o2.allow
	verifAssert(same, "C19: the same request is answered differently the second time")
	if same && o2.invoked >= 0 {
		for _, v := range o2.params {
			verifAssert(v != "\xffscribbled", "C19: path parameters of one request are visible to another")
		}
		_, left := o2.params["\xffleft-behind"]
		verifAssert(!left, "C19: path parameters of one request are visible to another")
	}
	EnableTracing(true)
	o3 := h.run(c, q)
	EnableTracing(false)
	verifAssert(o1.panicked == o3.panicked && o1.invoked == o3.invoked && o1.status == o3.status && o1.allow == o3.allow, "C19: trace logging changes the response")
}

// family 1: CORS and OPTIONS filters. A first request (preflight to the other
// URL, symbolic) must not influence how the second one is answered: a fresh
// twin container serves the second request alone.
func H_C19_cors(cfg int) {
	k := vCorsCfg{cookies: true, maxAge: 5, headers: []string{"X-A"}}
	if cfg%2 == 0 {
		k.methods = []string{"GET", "PUT"}
	}
	useOptions := cfg/2 == 1
	mk := func(h *vH) *Container {
		c := h.build(CurlyRouter{})
		cors := k.filter(c)
		c.Filter(cors.Filter)
		if useOptions {
			c.Filter(c.OPTIONSFilter)
		}
		return c
	}
	h := vNewH(vCorsTable)
	c := mk(h)
	ht := vNewH(vCorsTable)
	twin := mk(ht)
	// first request
	m1 := nondetString("method1", 7)
	u1 := []string{"/t/a", "/t/b"}[nondetChoice("url1", 2)]
	hdr1 := map[string]string{"Origin": "http://o", HEADER_AccessControlRequestMethod: nondetString("acrm1", 4)}
	fp1 := verifFingerprint(c)
	verifFrameBegin("dispatch", h)
	h.dispatch(c, vNewRec(), vHdrReq(m1, u1, hdr1))
	verifFrameEnd()
	verifAssert(verifFingerprint(c) == fp1, "native: C19: serving a request changed configuration state")
	// second request, on both containers
	m2 := nondetString("method2", 7)
	u2 := []string{"/t/a", "/t/b"}[nondetChoice("url2", 2)]
	hdr2 := map[string]string{"Origin": "http://o", HEADER_AccessControlRequestMethod: nondetString("acrm2", 4)}
	h.invoked, ht.invoked = nil, nil
	ra, rb := vNewRec(), vNewRec()
	h.dispatch(c, ra, vHdrReq(m2, u2, hdr2))
	ht.dispatch(twin, rb, vHdrReq(m2, u2, hdr2))
	verifObserveInt("status", ra.code())
	verifObserveStr("headers", vHeaderString(ra.out()))
	if strings.Contains(vHeaderString(ra.out()), HEADER_AccessControlAllowMethods) {
		verifCover("preflight-granted")
	}
	verifAssert(ra.code() == rb.code() && len(h.invoked) == len(ht.invoked) && vHeaderString(ra.out()) == vHeaderString(rb.out()),
		"C19: a request is answered differently after another request than on a fresh container")
}

// family 2: attributes and filters. Attributes set while serving one request
// must not be visible to the next one.
func H_C19_attrs(n int) {
	c := NewContainer()
	ws := new(WebService)
	ws.Path("/t")
	seen := 0
	set := nondetBool("set")
	c.Filter(func(req *Request, resp *Response, chain *FilterChain) {
		if req.Attribute("k") != nil {
			seen++
		}
		if set {
			req.SetAttribute("k", 1)
		}
		chain.ProcessFilter(req, resp)
	})
	ws.Route(ws.GET("/a").To(func(req *Request, resp *Response) {
		resp.WriteHeader(204)
	}))
	c.Add(ws)
	fp1 := verifFingerprint(c)
	for i := 0; i < n; i++ {
		verifFrameBegin("dispatch", &seen)
		c.Dispatch(vNewRec(), vReq{method: "GET", path: "/t/a"}.http())
		verifFrameEnd()
	}
	verifAssert(verifFingerprint(c) == fp1, "native: C19: serving a request changed configuration state")
	verifAssert(seen == 0, "C19: request attributes of one request are visible to another")
	verifCover("served")
}

// family 3: filter chains. The chain of one request must not be built in, or
// leave anything behind in, state shared with other requests.
func H_C19_chain(nc, ns, nr int) {
	k := &vChain{panicAt: -1, expAttr: map[string]int{}}
	c := vChainContainer(k, nc, ns, nr, -1)
	for _, f := range k.filts {
		f.replace = false
	}
	fp := verifFingerprint(c)
	var first string
	for i := 0; i < 2; i++ {
		k.log, k.curReq, k.curResp, k.wrong = nil, nil, nil, false
		k.expAttr = map[string]int{}
		rec := vNewRec()
		if i == 0 {
			verifFrameBegin("dispatch", k, rec)
		}
		c.Dispatch(rec, vReq{method: "GET", path: "/t/a"}.http())
		if i == 0 {
			verifFrameEnd()
			first = vLogString(k.log)
		}
	}
	verifAssert(verifFingerprint(c) == fp, "native: C19: serving a request changed configuration state")
	verifAssert(vLogString(k.log) == first && !k.wrong, "C19: the same request runs a different filter chain the second time")
	verifCover("served")
}

const (
	vMsgRace19  = "C19: two requests served concurrently race on state they share (the answer depends on concurrent traffic)"
	vMsgStuck19 = "C19: two requests served concurrently can block each other forever"
)

// family 4: two requests in flight at once, over all schedules (event-order encoding): no conflicting accesses to
// anything that existed before the requests, no way to block each other.
// kind 0: filters at the three levels around a route function; 1: CORS filter (computed methods) and OPTIONS filter,
// two preflights; 2: content encoding on, two encoded responses; 3: entities written according to Accept;
// 4: a dynamic-routes WebService; router: 0 Curly, 1 JSR311; entry: 0 Dispatch, 1 ServeHTTP
func H_C19_conc(kind, router, entry int) {
	c := NewContainer()
	c.Router(vRouter(router))
	pass := func(req *Request, resp *Response, chain *FilterChain) { chain.ProcessFilter(req, resp) }
	ws := new(WebService)
	ws.Path("/t")
	if kind == 4 {
		ws.SetDynamicRoutes(true)
	}
	hdr := map[string]string{}
	method, path := "GET", "/t/a"
	switch kind {
	case 0, 4:
		c.Filter(pass)
		ws.Filter(pass)
		ws.Route(ws.GET("/a").Filter(pass).To(func(req *Request, resp *Response) { resp.WriteHeader(204) }))
		ws.Route(ws.GET("/{v}").To(func(req *Request, resp *Response) { resp.Write([]byte(req.PathParameter("v"))) }))
	case 1:
		cors := CrossOriginResourceSharing{AllowedDomains: []string{"http://o"}, AllowedHeaders: []string{"X-A"}, CookiesAllowed: true, Container: c}
		c.Filter(cors.Filter)
		c.Filter(c.OPTIONSFilter)
		ws.Route(ws.GET("/a").To(func(req *Request, resp *Response) {}))
		ws.Route(ws.PUT("/a").To(func(req *Request, resp *Response) {}))
		method = "OPTIONS"
		hdr = map[string]string{"Origin": "http://o", HEADER_AccessControlRequestMethod: "PUT"}
	case 2:
		c.EnableContentEncoding(true)
		ws.Route(ws.GET("/a").To(func(req *Request, resp *Response) { resp.Write([]byte("abc")) }))
		hdr = map[string]string{"Accept-Encoding": "gzip"}
	case 3:
		ws.Route(ws.GET("/a").Produces(MIME_XML, MIME_JSON).To(func(req *Request, resp *Response) { resp.WriteEntity(vEntity{A: 1, B: "x"}) }))
		hdr = map[string]string{"Accept": "application/json;q=0.8, application/xml;q=0.9"}
	}
	c.Add(ws)
	// an earlier request has filled whatever is remembered between requests
	c.Dispatch(vNewRec(), vHdrReq(method, path, hdr))
	for t := 0; t < 2; t++ {
		p := path
		if t == 1 && (kind == 0 || kind == 4) {
			p = "/t/other" // the second request goes to the neighbouring route
		}
		rec := vNewRec()
		req := vHdrReq(method, p, hdr)
		verifSpawn(func() {
			if entry == 0 {
				c.Dispatch(rec, req)
			} else {
				c.ServeHTTP(rec, req)
			}
		})
	}
	verifRunThreads(vMsgRace19, vMsgStuck19)
	verifCover("concurrent-requests")
}
