package restful

import (
	"context"
	"net/http"
	"time"
)

// vDoneCtx is a request context that is already cancelled.
type vDoneCtx struct{}

var vClosedChan = func() chan struct{} { c := make(chan struct{}); close(c); return c }()

type vCtxErr struct{}

func (vCtxErr) Error() string { return "context canceled" }

var _ context.Context = vDoneCtx{}

func (vDoneCtx) Deadline() (time.Time, bool)       { return time.Time{}, false }
func (vDoneCtx) Done() <-chan struct{}             { return vClosedChan }
func (vDoneCtx) Err() error                        { return vCtxErr{} }
func (vDoneCtx) Value(key interface{}) interface{} { return nil }

// H_C10: a panic anywhere in the chain becomes one 500 and leaves the container usable.
// nc/ns/nr: filters per level; recov: 1 = recovery on; enc: 1 = container encoding on; entry: 0 Dispatch, 1 ServeHTTP,
// 2 Dispatch of a request that fails routing (only the container filters run, around the error response)
func H_C10(nc, ns, nr, recov, enc, entry int) {
	failRouting := entry == 2
	if failRouting {
		entry = 0
	}
	defaultHandler := recov == 2 // recovery on, with the framework's own recover handler
	if defaultHandler {
		recov = 1
	}
	led := vNewLedger(vProvider(0))
	old := currentCompressorProvider
	SetCompressorProvider(led)
	defer SetCompressorProvider(old)
	k := &vChain{expAttr: map[string]int{}, panicVal: "boom"}
	c := vChainContainer(k, nc, ns, nr, -1)
	c.EnableContentEncoding(enc == 1)
	c.DoNotRecover(recov == 0)
	recovered := 0
	var recVal interface{}
	if !defaultHandler {
		c.RecoverHandler(func(r interface{}, w http.ResponseWriter) {
			recovered++
			recVal = r
			w.WriteHeader(500)
			w.Write([]byte("rec"))
		})
	}
	nf := len(k.filts)
	for _, f := range k.filts {
		f.replace = false // a replaced pair writes to another recorder (C06's concern); here the client is one recorder
	}
	// one panic position per run: before/after each filter passes on, handler before/after writing, none,
	// or inside a route selection condition
	pos := nondetChoice("panicpos", 2*nf+4)
	k.panicAt = pos
	if pos == 2*nf+2 {
		k.panicAt = -1
	}
	if pos == 2*nf+3 {
		k.panicAt = -5
	}
	path := "/t/a"
	if failRouting {
		path = "/t/nomatch"
	}
	ae := ""
	if enc == 1 {
		ae = "gzip"
	}
	rec := vNewRec()
	req := vHdrReq("GET", path, map[string]string{"Accept-Encoding": ae})
	if nondetBool("cancelled") {
		// the client has gone away or a deadline has passed: the request's context is done. That changes nothing
		// in what the property promises about the panic
		req = req.WithContext(vDoneCtx{})
		verifCover("context-done")
	}
	var escaped interface{}
	func() {
		defer func() {
			if x := recover(); x != nil {
				if _, ok := x.(verifStop); ok {
					panic(x)
				}
				escaped = x
			}
		}()
		if entry == 0 {
			c.Dispatch(rec, req)
		} else {
			c.ServeHTTP(rec, req)
		}
	}()
	// did the chosen position get reached? (a filter that stops earlier prevents it)
	if defaultHandler {
		// the default handler writes a 500 with a report; what can be judged is: nothing escapes, the body is one
		// complete stream, and the framework announces no length it cannot know (the body may be encoded)
		verifCover("default-handler")
		verifAssert(escaped == nil, "C10: a panic escaped Dispatch/ServeHTTP although recovery is on")
		ce := vHdr1(rec, "Content-Encoding")
		_, ok := verifDecodeBody(rec.chunks, ce)
		verifAssert(ok, "C10: the response body after a recovered panic is not complete/decodable")
		verifAssert(ce == "" || len(rec.out()["Content-Length"]) == 0, "C10: a Content-Length was announced for a response that is encoded on the way out")
		verifAssert(vContainerLocksFree(c), "C10: a lock is still held after the request")
		verifAssert(led.clean(), "C10: a compressor was lost, released twice or used after release (C13)")
		return
	}
	raised := k.panics > 0
	verifAssert(raised || (recovered == 0 && escaped == nil), "C10: the recover handler ran or a panic escaped although nothing panicked")
	verifObserveBool("raised", raised)
	verifObserveInt("status", rec.code())
	if raised {
		verifCover("raised")
		if recov == 1 {
			verifCover("recovery-on")
			verifAssert(escaped == nil, "C10: a panic escaped Dispatch/ServeHTTP although recovery is on")
			verifAssert(recovered == 1, "C10: the recover handler did not run exactly once")
			verifAssert(recVal == "boom", "C10: the recover handler did not receive the panic value")
			// panic before the handler wrote anything: the client sees the recover handler's status and body
			wroteBefore := pos == 2*nf+1 || (pos%2 == 1 && pos < 2*nf && k.log[len(k.log)-1] == "H")
			if failRouting {
				// the error response was written before control came back to filter pos/2 iff every
				// container filter behind it passed control on
				wroteBefore = pos%2 == 1 && pos < 2*nc
				for j := pos/2 + 1; j < nc && wroteBefore; j++ {
					if k.filts[j].stop {
						wroteBefore = false
					}
				}
			}
			ce := vHdr1(rec, "Content-Encoding")
			payload, ok := verifDecodeBody(rec.chunks, ce)
			verifAssert(ok, "C10: the response body after a recovered panic is not complete/decodable")
			if !wroteBefore {
				verifCover("nothing-written-before")
				verifAssert(rec.code() == 500, "C10: the recover handler's status did not reach the client")
				verifAssert(ok && string(payload) == "rec", "C10: the recover handler's body did not reach the client complete")
			} else {
				verifCover("partial-output-before")
				want := "okrec"
				if failRouting {
					want = "404: Page Not Foundrec"
				}
				verifAssert(ok && string(payload) == want, "C10: output written before the panic plus the recover handler's output is not what the client received")
			}
		} else {
			verifCover("recovery-off")
			verifAssert(recovered == 0, "C10: the recover handler ran although recovery is off")
			verifAssert(escaped == "boom", "C10: with recovery off the panic did not propagate unchanged")
		}
	} else {
		verifCover("not-raised")
	}
	// afterwards the container serves the next request as it would have otherwise
	verifAssert(vContainerLocksFree(c), "C10: a lock is still held after the request")
	verifAssert(led.clean(), "C10: a compressor was lost, released twice or used after release (C13)")
	k.panicAt = -1
	for _, f := range k.filts {
		f.stop, f.replace, f.attr = false, false, false
	}
	k.log, k.curReq, k.curResp, k.wrong = nil, nil, nil, false
	k.expAttr = map[string]int{}
	rec2 := vNewRec()
	c.Dispatch(rec2, vHdrReq("GET", "/t/a", map[string]string{"Accept-Encoding": ae}))
	ce2 := vHdr1(rec2, "Content-Encoding")
	payload2, ok2 := verifDecodeBody(rec2.chunks, ce2)
	verifAssert(rec2.code() == 201 && ok2 && string(payload2) == "ok" && len(k.log) == nf+1, "C10: the request following a panicking one is not served normally")
	verifAssert(led.clean(), "C10: a compressor was lost, released twice or used after release (C13)")
}
