package restful

import (
	"net/http"
	"strings"
)

var vRootMenu = []string{"/", "/a", "/a/", "/a/b", "/ab", "/{x}", "/a/{x}", "/a/{x}/c", "/a/{x}/d"}

// registration model: what a container should contain after a history
type vRegSvc struct {
	idx   int  // index into vRootMenu
	extra int  // how many copies of the extra route GET /x are present (0..2)
	twin  bool // the route GET /x/ (same path up to the trailing slash) is present
}

type vRegState struct {
	svcs   []vRegSvc
	plain  bool // a plain handler on /plain is registered
}

type vRegWorld struct {
	c       *Container
	ws      map[int]*WebService
	hits    *[]string
	dynLate bool // dynamic routes are switched on after the first routes were registered
	dynLazy bool // ... or only right before the first change of the routes of a service
}

func vNewWorld(hits *[]string) *vRegWorld {
	w := &vRegWorld{c: NewContainer(), ws: map[int]*WebService{}, hits: hits}
	w.c.Filter(w.c.OPTIONSFilter)
	return w
}

func (w *vRegWorld) service(idx int) *WebService {
	if s, ok := w.ws[idx]; ok {
		return s
	}
	s := new(WebService)
	s.Path(vRootMenu[idx])
	if !w.dynLate && !w.dynLazy {
		s.SetDynamicRoutes(true)
	}
	name := "ws" + vItoa(idx)
	s.Route(s.GET("/").To(func(req *Request, resp *Response) { *w.hits = append(*w.hits, name) }))
	s.Route(s.GET("/r").To(func(req *Request, resp *Response) { *w.hits = append(*w.hits, name+"/r") }))
	if w.dynLate {
		s.SetDynamicRoutes(true)
	}
	w.ws[idx] = s
	return s
}

func (w *vRegWorld) addExtra(idx int) {
	s := w.service(idx)
	s.SetDynamicRoutes(true)
	name := "ws" + vItoa(idx) + "/x"
	s.Route(s.GET("/x").To(func(req *Request, resp *Response) { *w.hits = append(*w.hits, name) }))
}

func (w *vRegWorld) addTwin(idx int) {
	s := w.service(idx)
	s.SetDynamicRoutes(true)
	name := "ws" + vItoa(idx) + "/x/"
	s.Route(s.GET("/x/").To(func(req *Request, resp *Response) { *w.hits = append(*w.hits, name) }))
}

func (w *vRegWorld) handlePlain() {
	w.c.Handle("/plain", http.HandlerFunc(func(rw http.ResponseWriter, r *http.Request) {
		*w.hits = append(*w.hits, "plain")
		rw.WriteHeader(202)
	}))
}

// op codes: 10+i Add(menu i); 30+i Remove(menu i); 50+i Route GET /x on service i; 70+i RemoveRoute(GET /x) on i;
// 110+i Route GET /x/ on service i; 90 Handle(/plain)
func (st *vRegState) find(idx int) int {
	for k, s := range st.svcs {
		if s.idx == idx {
			return k
		}
	}
	return -1
}

// apply performs op on the world and on the model; ok=false when the op is not applicable.
func vApply(w *vRegWorld, st *vRegState, op int) bool {
	switch {
	case op >= 10 && op < 30:
		idx := op - 10
		if st.find(idx) >= 0 {
			return false // duplicate root path: documented exit, excluded
		}
		w.c.Add(w.service(idx))
		st.svcs = append(st.svcs, vRegSvc{idx: idx})
	case op >= 30 && op < 50:
		idx := op - 30
		k := st.find(idx)
		if k < 0 {
			return false
		}
		w.c.Remove(w.service(idx))
		st.svcs = append(append([]vRegSvc{}, st.svcs[:k]...), st.svcs[k+1:]...)
	case op >= 50 && op < 70:
		idx := op - 50
		k := st.find(idx)
		if k < 0 || st.svcs[k].extra >= 2 {
			return false
		}
		w.addExtra(idx)
		st.svcs[k].extra++
	case op >= 70 && op < 90:
		idx := op - 70
		k := st.find(idx)
		if k < 0 || st.svcs[k].extra == 0 {
			return false
		}
		w.service(idx).SetDynamicRoutes(true)
		w.service(idx).RemoveRoute(strings.TrimRight(vRootMenu[idx], "/")+"/x", "GET")
		st.svcs[k].extra = 0 // RemoveRoute removes every route with that method and path
	case op >= 110 && op < 130: // Route GET /x/ (slash twin of the extra route)
		idx := op - 110
		k := st.find(idx)
		if k < 0 || st.svcs[k].twin {
			return false
		}
		w.addTwin(idx)
		st.svcs[k].twin = true
	case op == 90:
		if st.plain {
			return false
		}
		w.handlePlain()
		st.plain = true
	default:
		return false
	}
	return true
}

// vFresh builds a new container holding exactly the model's content, in order.
func vFresh(st vRegState, hits *[]string) *vRegWorld {
	w := vNewWorld(hits)
	for _, s := range st.svcs {
		ws := w.service(s.idx)
		for n := 0; n < s.extra; n++ {
			w.addExtra(s.idx)
		}
		if s.twin {
			w.addTwin(s.idx)
		}
		w.c.Add(ws)
	}
	if st.plain {
		w.handlePlain()
	}
	return w
}

// H_C11: registration state equals what a fresh container with the same content has.
// op1..op4: the history (0 = no operation); router: 0 Curly, 1 JSR311
// variant: early probe position (variant%5: 0 none, k before operation k), probe method ((variant/5)%2: GET, OPTIONS),
// dynamic routes (variant/10): 0 switched on before any route is registered, 1 after the first routes of a service,
// 2 only right before the first later change of its routes
func H_C11(op1, op2, op3, op4, router, variant int) {
	var hitsA, hitsB []string
	a := vNewWorld(&hitsA)
	a.c.Router(vRouter(router))
	a.dynLate = variant/10 == 1
	a.dynLazy = variant/10 == 2
	st := &vRegState{}
	panicked := false
	// the probe request; it may also be sent once earlier, before one of the operations: an answer computed
	// then must not survive the operations that follow
	p := nondetString("path", 8)
	meth := []string{"GET", "OPTIONS"}[(variant/5)%2]
	req := func() *http.Request { return vReq{method: meth, path: p}.http() }
	earlyAt := variant % 5 // 0: no early probe; k: before operation k
	func() {
		defer func() {
			if x := recover(); x != nil {
				if _, ok := x.(verifStop); ok {
					panic(x)
				}
				panicked = true
			}
		}()
		for i, op := range []int{op1, op2, op3, op4} {
			if earlyAt == i+1 {
				a.c.Dispatch(vNewRec(), req())
				a.c.ServeHTTP(vNewRec(), req())
				hitsA = nil
				verifCover("early-probe")
			}
			if op == 0 {
				continue
			}
			if !vApply(a, st, op) {
				verifAssume(false) // history not applicable
			}
		}
	}()
	verifAssert(!panicked, "C11: registering WebServices with pairwise different root paths (or removing one) panicked")
	if panicked {
		return
	}
	// recorded finding: plain handlers are lost when a WebService is removed
	removes := false
	for _, op := range []int{op1, op2, op3, op4} {
		if op >= 30 && op < 50 {
			removes = true
		}
	}
	b := vFresh(*st, &hitsB)
	b.c.Router(vRouter(router))
	// probe
	verifKnown("remove-drops-plain-handlers", vAnd(st.plain && removes, strings.HasPrefix(p, "/plain")))
	verifAssume(strings.Count(strings.Trim(p, "/"), "/") < 3)
	ra, rb := vNewRec(), vNewRec()
	a.c.Dispatch(ra, req())
	b.c.Dispatch(rb, req())
	verifObserveInt("dispatch-status", ra.code())
	verifObserveStr("dispatch-hits", strings.Join(hitsA, ","))
	verifAssert(ra.code() == rb.code() && strings.Join(hitsA, ",") == strings.Join(hitsB, ",") && vHdr1(ra, "Allow") == vHdr1(rb, "Allow"), "C11: Dispatch answers differently than on a fresh container with the same content")
	if len(hitsA) > 0 {
		verifCover("dispatch-routed")
	}
	dispatchHits := strings.Join(hitsA, ",")
	hitsA, hitsB = nil, nil
	sa, sb := vNewRec(), vNewRec()
	a.c.ServeHTTP(sa, req())
	b.c.ServeHTTP(sb, req())
	verifObserveInt("serve-status", sa.code())
	verifObserveStr("serve-hits", strings.Join(hitsA, ","))
	verifAssert(sa.code() == sb.code() && strings.Join(hitsA, ",") == strings.Join(hitsB, ",") && vHdr1(sa, "Allow") == vHdr1(sb, "Allow"), "C11: ServeHTTP answers differently than on a fresh container with the same content")
	if len(hitsA) > 0 {
		verifCover("serve-routed")
	}
	_ = dispatchHits
	if sa.code() == 404 {
		verifCover("serve-404")
	}
}
