package restful

// Shared harness code: route-table descriptions, container construction through
// the public API, a recording ResponseWriter, and the reference semantics
// (three-valued oracles) of DESIGN.md section 5.0. Everything here is ordinary
// Go; the symbolic executor runs it like go-restful's own code, `go test
// -overlay` runs it natively for replay.

import (
	"bufio"
	"errors"
	"net"
	"net/http"
	"net/url"
	"regexp"
	"strconv"
	"strings"
)

// ---------------------------------------------------------------- tables

type vRoute struct {
	method   string
	path     string
	consumes []string
	produces []string
	cond     bool // route has an If condition with a nondeterministic result
	noCT     []string // AllowedMethodsWithoutContentType (nil: the built-in list)
}

type vService struct {
	root   string
	routes []vRoute
}

type vTable struct {
	services []vService
}

// flattened route with its reference template
type vFlat struct {
	svc    int
	route  vRoute
	full   string // full path as concatPath builds it
	toks   []vTok // tokens of the full template
	rtoks  int    // number of tokens contributed by the root
}

const (
	tkLit = iota
	tkVar
	tkRegex
	tkAffix
	tkTail
)

type vTok struct {
	kind int
	lit  string
	name string
	re   string
	pre  string
	suf  string
	verb string // custom verb without the colon, "" if none
}

var vVerbRe = regexp.MustCompile(":([A-Za-z]+)$")

func vParseToken(t string, verbOK bool) vTok {
	tok := vTok{}
	if verbOK {
		if m := vVerbRe.FindStringSubmatch(t); m != nil {
			tok.verb = m[1]
			t = t[:len(t)-len(m[0])]
		}
	}
	open := strings.Index(t, "{")
	if open < 0 {
		tok.kind = tkLit
		tok.lit = t
		return tok
	}
	cl := strings.LastIndex(t, "}")
	inner := t[open+1 : cl]
	tok.pre = t[:open]
	tok.suf = t[cl+1:]
	if colon := strings.Index(inner, ":"); colon >= 0 {
		tok.name = strings.TrimSpace(inner[:colon])
		tok.re = strings.TrimSpace(inner[colon+1:])
		if tok.re == "*" {
			tok.kind = tkTail
		} else {
			tok.kind = tkRegex
		}
		return tok
	}
	tok.name = strings.TrimSpace(inner)
	if tok.pre != "" || tok.suf != "" {
		tok.kind = tkAffix
	} else {
		tok.kind = tkVar
	}
	return tok
}

func vTemplateTokens(full string) []vTok {
	if full == "/" {
		return nil
	}
	parts := strings.Split(strings.Trim(full, "/"), "/")
	hasVerb := vVerbRe.MatchString(full)
	var out []vTok
	for i, p := range parts {
		out = append(out, vParseToken(p, hasVerb && i == len(parts)-1))
	}
	return out
}

func vFullPath(root, path string) string {
	if root == "" {
		root = "/"
	}
	return strings.TrimRight(root, "/") + "/" + strings.TrimLeft(path, "/")
}

func vFlatten(t vTable) []vFlat {
	var out []vFlat
	for si, s := range t.services {
		rt := 0
		root := s.root
		if root == "" {
			root = "/"
		}
		if root != "/" {
			rt = len(strings.Split(strings.Trim(root, "/"), "/"))
		}
		for _, r := range s.routes {
			full := vFullPath(s.root, r.path)
			out = append(out, vFlat{svc: si, route: r, full: full, toks: vTemplateTokens(full), rtoks: rt})
		}
	}
	return out
}

// ---------------------------------------------------------------- per-run state

type vH struct {
	table    vTable
	flat     []vFlat
	cond     []bool
	invoked  []int
	selPath  []string
	selMeth  []string
	params   []map[string]string
	panicked bool
	events   []string
}

func vNewH(t vTable) *vH {
	h := &vH{table: t, flat: vFlatten(t)}
	vMinSegs = 0
	for _, f := range h.flat {
		if len(f.toks) > vMinSegs {
			vMinSegs = len(f.toks)
		}
	}
	h.cond = make([]bool, len(h.flat))
	for i, f := range h.flat {
		h.cond[i] = true
		if f.route.cond {
			h.cond[i] = nondetBool("if" + strconv.Itoa(i))
		}
	}
	return h
}

func (h *vH) routeFn(id int) RouteFunction {
	return func(req *Request, resp *Response) {
		h.invoked = append(h.invoked, id)
		h.selPath = append(h.selPath, req.SelectedRoutePath())
		meth := ""
		if sr := req.SelectedRoute(); sr != nil {
			meth = sr.Method()
		}
		h.selMeth = append(h.selMeth, meth)
		h.params = append(h.params, req.PathParameters())
		h.events = append(h.events, "route"+strconv.Itoa(id))
	}
}

func (h *vH) condFn(id int) RouteSelectionConditionFunction {
	return func(r *http.Request) bool { return h.cond[id] }
}

// build registers the table through the public API.
func (h *vH) build(router RouteSelector) *Container {
	c := NewContainer()
	c.Router(router)
	id := 0
	for _, s := range h.table.services {
		ws := new(WebService)
		ws.Path(s.root)
		for _, r := range s.routes {
			b := ws.Method(r.method).Path(r.path).To(h.routeFn(id))
			if len(r.consumes) > 0 {
				b.Consumes(r.consumes...)
			}
			if len(r.produces) > 0 {
				b.Produces(r.produces...)
			}
			if r.cond {
				b.If(h.condFn(id))
			}
			if r.noCT != nil {
				b.AllowedMethodsWithoutContentType(r.noCT)
			}
			ws.Route(b)
			id++
		}
		c.Add(ws)
	}
	return c
}

func vRouter(k int) RouteSelector {
	if k == 1 {
		return RouterJSR311{}
	}
	return CurlyRouter{}
}

// ---------------------------------------------------------------- recorder

type vRec struct {
	hdr     http.Header
	sent    http.Header // the headers as they were when the status went out (nil: nothing sent yet)
	status  int
	nStatus int
	chunks  [][]byte
	broken  bool // every Write fails (client gone)
}

// commit: like net/http, the header map is sent with the status line; what is set afterwards never reaches the client
func (r *vRec) commit() {
	if r.sent != nil {
		return
	}
	r.sent = http.Header{}
	for k, v := range r.hdr {
		r.sent[k] = append([]string{}, v...)
	}
}

// out: the headers the client sees
func (r *vRec) out() http.Header {
	if r.sent != nil {
		return r.sent
	}
	return r.hdr
}

var vErrBroken = errors.New("verif: broken pipe")

func vNewRec() *vRec { return &vRec{hdr: http.Header{}} }

func (r *vRec) Header() http.Header { return r.hdr }
func (r *vRec) WriteHeader(s int) {
	if r.status == 0 {
		r.status = s
		r.commit()
	}
	r.nStatus++
}
func (r *vRec) Write(b []byte) (int, error) {
	if r.status == 0 {
		r.status = 200
		r.commit()
	}
	if r.broken {
		return 0, vErrBroken
	}
	r.chunks = append(r.chunks, verifKeep(b))
	return len(b), nil
}

// Hijack: the recorder plays a connection that can be taken over (the writes keep being recorded)
func (r *vRec) Hijack() (net.Conn, *bufio.ReadWriter, error) { return nil, nil, nil }

// effective status: 200 when nothing was written
func (r *vRec) code() int {
	if r.status == 0 {
		return 200
	}
	return r.status
}

// ---------------------------------------------------------------- requests

type vReq struct {
	method string
	path   string
	ctype  string
	accept string
	clHdr  string
	clen   int
}

func (q vReq) http() *http.Request {
	hd := http.Header{}
	if q.ctype != "" {
		hd["Content-Type"] = []string{q.ctype}
	}
	if q.accept != "" {
		hd["Accept"] = []string{q.accept}
	}
	if q.clHdr != "" {
		hd["Content-Length"] = []string{q.clHdr}
	}
	return &http.Request{Method: q.method, URL: &url.URL{Path: q.path}, Header: hd, ContentLength: int64(q.clen)}
}

func (h *vH) dispatch(c *Container, w http.ResponseWriter, r *http.Request) {
	defer func() {
		if x := recover(); x != nil {
			if _, ok := x.(verifStop); ok {
				panic(x)
			}
			h.panicked = true
		}
	}()
	c.Dispatch(w, r)
}

// ---------------------------------------------------------------- reference semantics

const (
	refNo     = 0
	refUnspec = 1
	refYes    = 2
)

func vMin(a, b int) int { return vIte(a < b, a, b) }

// vTrailSlash: the path most recently given to vSegments ends in a slash
// (set there, read by refPathMatch for one unspecified zone).
var vTrailSlash bool

// vSegments is the oracle's own tokenisation of the flat request path.
// canon: exactly one leading slash and at most one trailing slash.
func vSegments(p string) (segs []string, canon bool) {
	vTrailSlash = vAnd(strings.HasSuffix(p, "/"), p != "/")
	canon = vAnd(strings.HasPrefix(p, "/"), vAnd(!strings.HasPrefix(p, "//"), !strings.HasSuffix(p, "//")))
	if p == "/" {
		return nil, canon
	}
	return strings.Split(strings.Trim(p, "/"), "/"), canon
}

var vRxCache = map[string]*regexp.Regexp{}

func vRx(p string) *regexp.Regexp {
	if r, ok := vRxCache[p]; ok {
		return r
	}
	r := regexp.MustCompile(p)
	vRxCache[p] = r
	return r
}

// refTokenMatch: does template token tok admit URL segment seg?
func refTokenMatch(tok vTok, seg string) int {
	if tok.verb != "" {
		if !strings.HasSuffix(seg, ":"+tok.verb) {
			return refNo
		}
		seg = seg[:len(seg)-len(tok.verb)-1]
	}
	switch tok.kind {
	case tkLit:
		return vIte(seg == tok.lit, refYes, refNo)
	case tkVar:
		return vIte(len(seg) != 0, refYes, refUnspec)
	case tkRegex:
		full := vRx("^(?:" + tok.re + ")$").MatchString(seg)
		part := vRx(tok.re).MatchString(seg)
		return vIte(full, refYes, vIte(part, refUnspec, refNo))
	case tkAffix:
		ok := vAnd(strings.HasPrefix(seg, tok.pre), vAnd(strings.HasSuffix(seg, tok.suf), len(seg) >= len(tok.pre)+len(tok.suf)))
		return vIte(ok, vIte(len(seg) == len(tok.pre)+len(tok.suf), refUnspec, refYes), refNo)
	}
	return refUnspec
}

// refPathMatch: does the template admit the segments?
func refPathMatch(toks []vTok, segs []string) int {
	n, m := len(toks), len(segs)
	tail := n > 0 && toks[n-1].kind == tkTail
	res := refYes
	limit := n
	if tail {
		limit = n - 1
		if m < n-1 {
			return refNo
		}
		if m == n-1 {
			res = refUnspec
		}
	} else if n == m+1 && toks[n-1].kind == tkRegex && toks[n-1].verb == "" && vRx("^(?:"+toks[n-1].re+")$").MatchString("") {
		// "/t/" against /t/{v:[0-9]*}: behind the trailing slash there is an empty segment which the
		// variable's expression admits; the statement does not say whether that counts as a segment
		res = vIte(vTrailSlash, refUnspec, refNo)
		limit = m
	} else if n != m {
		return refNo
	}
	for i := 0; i < limit; i++ {
		res = vMin(res, refTokenMatch(toks[i], segs[i]))
	}
	return res
}

func vContains(list []string, s string) bool {
	for _, e := range list {
		if e == s {
			return true
		}
	}
	return false
}

// refMediaIn: term-level "mt equals one of the concrete entries".
func refMediaIn(list []string, mt string) bool {
	r := false
	for _, e := range list {
		r = vOr(r, mt == e)
	}
	return r
}

// refConsumes: is Content-Type ct admitted by the route's Consumes list?
// Written without branches on the header so that it stays one term.
func refConsumes(r vRoute, ct string) int {
	if len(r.consumes) == 0 || vContains(r.consumes, "*/*") {
		return refYes
	}
	emptyV := refNo
	m := r.method
	if len(r.noCT) > 0 {
		// the route's own list replaces the built-in one
		if vContains(r.noCT, m) || vContains(r.consumes, MIME_OCTET) {
			emptyV = refYes
		}
	} else if m == "GET" || m == "HEAD" || m == "OPTIONS" || m == "DELETE" || m == "TRACE" || vContains(r.consumes, MIME_OCTET) {
		emptyV = refYes
	}
	i := strings.Index(ct, ";")
	mt := strings.Trim(vIteStr(i != -1, vSubstr(ct, 0, i), ct), " ")
	judged := vIte(refMediaIn(r.consumes, mt), refYes, refNo)
	return vIte(len(ct) == 0, emptyV, vIte(strings.Contains(ct, ","), refUnspec, judged))
}

// vMaxRanges bounds the number of comma separated ranges the oracle parses
// (the harness assumes the header has fewer commas).
const vMaxRanges = 2

// refProduces: is the Accept header satisfiable from the Produces list?
func refProduces(r vRoute, accept string) int {
	if vContains(r.produces, "*/*") {
		return refYes
	}
	res := refNo
	unspec := false
	rest := accept
	more := true
	for k := 0; k < vMaxRanges; k++ {
		ci := strings.Index(rest, ",")
		has := ci != -1
		rng := vIteStr(has, vSubstr(rest, 0, ci), rest)
		si := strings.Index(rng, ";")
		mt := strings.Trim(vIteStr(si != -1, vSubstr(rng, 0, si), rng), " ")
		q0 := vAnd(si != -1, strings.Contains(vSubstr(rng, si, len(rng)), "q=0"))
		wild := vAnd(strings.HasSuffix(mt, "/*"), mt != "*/*")
		unspec = vOr(unspec, vAnd(more, vOr(q0, wild)))
		ok := vAnd(more, vOr(mt == "*/*", refMediaIn(r.produces, mt)))
		res = vIte(ok, refYes, res)
		rest = vSubstr(rest, ci+1, len(rest))
		more = vAnd(more, has)
	}
	return vIte(len(accept) == 0, refYes, vIte(unspec, refUnspec, res))
}

// refAdmits: the full admission verdict for flattened route id.
func (h *vH) refAdmits(id int, q vReq, segs []string, canon bool) int {
	f := h.flat[id]
	// non-canonical paths: the statement does not say how they tokenise
	res := vIte(canon, refPathMatch(f.toks, segs), refUnspec)
	res = vMin(res, vIte(q.method == f.route.method, refYes, refNo))
	res = vMin(res, refConsumes(f.route, q.ctype))
	res = vMin(res, refProduces(f.route, q.accept))
	res = vMin(res, vIte(h.cond[id], refYes, refNo))
	return res
}

func vItoa(i int) string { return strconv.Itoa(i) }

// vSamplePaths: one concrete URL per route of the table that its template
// admits (used by the header stage, where the path is not the subject).
func vSamplePaths(flat []vFlat) []string {
	var out []string
	for _, f := range flat {
		p := ""
		for _, tk := range f.toks {
			seg := ""
			switch tk.kind {
			case tkLit:
				seg = tk.lit
			case tkVar:
				seg = "q"
			case tkRegex:
				seg = "q"
				if strings.Contains(tk.re, "0-9") {
					seg = "7"
				}
			case tkAffix:
				seg = tk.pre + "q" + tk.suf
			case tkTail:
				seg = "q/r"
			}
			if tk.verb != "" {
				seg += ":" + tk.verb
			}
			p += "/" + seg
		}
		if p == "" {
			p = "/"
		}
		if !vContains(out, p) {
			out = append(out, p)
		}
	}
	return out
}
