package restful

import "strings"

func vPerms(n int) [][]int {
	switch n {
	case 0:
		return [][]int{{}}
	case 1:
		return [][]int{{0}}
	case 2:
		return [][]int{{0, 1}, {1, 0}}
	case 3:
		return [][]int{{0, 1, 2}, {0, 2, 1}, {1, 0, 2}, {1, 2, 0}, {2, 0, 1}, {2, 1, 0}}
	}
	// larger lists: identity and reversal only
	id := make([]int, n)
	rev := make([]int, n)
	for i := range id {
		id[i] = i
		rev[i] = n - 1 - i
	}
	return [][]int{id, rev}
}

// buildOrdered registers the table with services and routes permuted by perm;
// route ids stay those of the unpermuted table.
func (h *vH) buildOrdered(router RouteSelector, perm int) *Container {
	c := NewContainer()
	c.Router(router)
	first := make([]int, len(h.table.services))
	id := 0
	for si, s := range h.table.services {
		first[si] = id
		id += len(s.routes)
	}
	sp := vPerms(len(h.table.services))
	sorder := sp[perm%len(sp)]
	for _, si := range sorder {
		s := h.table.services[si]
		ws := new(WebService)
		ws.Path(s.root)
		rp := vPerms(len(s.routes))
		rorder := rp[perm%len(rp)]
		for _, ri := range rorder {
			r := s.routes[ri]
			rid := first[si] + ri
			b := ws.Method(r.method).Path(r.path).To(h.routeFn(rid))
			if len(r.consumes) > 0 {
				b.Consumes(r.consumes...)
			}
			if len(r.produces) > 0 {
				b.Produces(r.produces...)
			}
			if r.cond {
				b.If(h.condFn(rid))
			}
			if r.noCT != nil {
				b.AllowedMethodsWithoutContentType(r.noCT)
			}
			ws.Route(b)
		}
		c.Add(ws)
	}
	return c
}

// vMoreSpecific: same number of tokens, same kinds everywhere except exactly
// the positions where a has a literal and b a variable (at least one).
func vMoreSpecific(a, b []vTok) bool {
	if len(a) != len(b) {
		return false
	}
	better := false
	for i := range a {
		if a[i].verb != b[i].verb {
			return false
		}
		if a[i].kind == b[i].kind {
			if a[i].kind == tkLit && a[i].lit != b[i].lit {
				return false
			}
			continue
		}
		if a[i].kind == tkLit && (b[i].kind == tkVar || b[i].kind == tkAffix || b[i].kind == tkRegex) {
			better = true
			continue
		}
		return false
	}
	return better
}

// H_C03: best match - literals beat variables - and independence of the
// registration order.
func H_C03(tbl, router, perm int) {
	stage := 0
	if perm >= 1000 { // header stage: concrete sample URLs, symbolic Content-Type and Accept
		perm -= 1000
		stage = 1
	}
	if perm >= 100 { // thorough bounds
		perm -= 100
		stage = 10
	}
	t := vTableFor(tbl)
	h1 := vNewH(t)
	c1 := h1.buildOrdered(vRouter(router), 0)
	h2 := &vH{table: t, flat: h1.flat, cond: h1.cond}
	c2 := h2.buildOrdered(vRouter(router), perm)
	q := vSymRequest(stage, 12, 3, vSamplePaths(h1.flat))
	vKnownRouting(q, router)
	o1 := h1.run(c1, q)
	o2 := h2.run(c2, q)
	if o1.invoked >= 0 {
		verifCover("invoked")
		verifObserveInt("route", o1.invoked)
	} else {
		verifCover("not-invoked")
		verifObserveInt("status", o1.status)
	}
	same := o1.panicked == o2.panicked && o1.invoked == o2.invoked && o1.status == o2.status &&
		strings.Join(vAllowSet(o1.allow), ",") == strings.Join(vAllowSet(o2.allow), ",")
	verifAssert(same, "C03: the outcome depends on the registration order of WebServices and routes")
	// specificity among eligible routes
	if o1.invoked >= 0 {
		segs, canon := vSegments(q.path)
		win := h1.flat[o1.invoked]
		for j, f := range h1.flat {
			if j == o1.invoked || f.svc != win.svc || !vMoreSpecific(f.toks, win.toks) {
				continue
			}
			verifCover("specificity-compared")
			adm := h1.refAdmits(j, q, segs, canon)
			verifAssert(adm != refYes, "C03: a route with a variable segment was selected although an eligible route has a literal there")
		}
	}
}
