package restful

import (
	"net/http"
	"net/url"
	"strings"
)

// C16: entities survive write then read, also compressed, whatever came before - go-restful's part of it.
// encoding/json, encoding/xml, compress/gzip and compress/zlib are trusted (DESIGN C16): symbolically a serialised
// value is an opaque token that the matching decoder turns back into an equal value, a compressed stream an opaque
// token that the matching decompressor opens; natively the real packages run. What is decided is everything
// go-restful does around them: which reader a Content-Type spelling selects, which decompressor a Content-Encoding
// selects, that a pooled decompressor is reset onto the new body, the number-preserving decoder, errors instead of
// panics, and independence from earlier (broken) requests.

type vEnt16J struct {
	N int64
	S string
	A interface{} // holds an int64 when written; read back as a number of the decoder's choosing
	P string      // constant, repetitive: makes the document longer than its compressed form
}

type vEnt16X struct {
	N int64
	S string
	P string
}

const v16Pad = "abababababababababababababababababababababababababababababababababababababababababababababababababababababababababababababababababababababababababababababab"

const (
	vMsg16Equal  = "C16: an entity written and read back with the same Content-Type differs from the original"
	vMsg16Err    = "C16: reading a well-formed entity with the Content-Type it was written with fails"
	vMsg16Broken = "C16: a request with a broken body or an unusable Content-Type is read without an error"
	vMsg16Panic  = "C16: reading an entity panicked"
	vMsg16Led    = "C16: a decompressor was lost, released twice or used after release"
)

func v16Mime(kind int) string {
	if kind == 1 {
		return MIME_XML
	}
	return MIME_JSON
}

// v16Write serialises (n, s) with the entity writer of the kind. wmode bit 0: pretty print; bit 1: through
// WriteEntity (Accept decides) instead of WriteAsJson/WriteAsXml; bit 2: WriteHeaderAndEntity.
func v16Write(kind, wmode int, n int64, s string) ([][]byte, string) {
	rec := vNewRec()
	resp := NewResponse(rec)
	resp.PrettyPrint(wmode&1 == 1)
	var v interface{}
	if kind == 1 {
		v = vEnt16X{N: n, S: s, P: v16Pad}
	} else {
		v = vEnt16J{N: n, S: s, A: n, P: v16Pad}
	}
	switch {
	case wmode&4 != 0:
		resp.SetRequestAccepts(v16Mime(kind))
		resp.WriteHeaderAndEntity(201, v)
	case wmode&2 != 0:
		resp.SetRequestAccepts(v16Mime(kind))
		resp.WriteEntity(v)
	case kind == 1:
		resp.WriteAsXml(v)
	default:
		resp.WriteAsJson(v)
	}
	return rec.chunks, vHdr1(rec, "Content-Type")
}

type v16Out struct {
	err      error
	panicked bool
	n        int64
	s        string
	a        int64
	aOK      bool
}

// v16Read reads one request body into a fresh target of the kind.
func v16Read(kind int, ct, ce string, body []byte) (o v16Out) {
	hd := http.Header{}
	if ct != "" {
		hd["Content-Type"] = []string{ct}
	}
	if ce != "" {
		hd["Content-Encoding"] = []string{ce}
	}
	// the announced length is the length on the wire (of the encoded body), as a server sets it
	hr := &http.Request{Method: "POST", URL: &url.URL{Path: "/"}, Header: hd, Body: verifBody(body), ContentLength: int64(len(body))}
	req := NewRequest(hr)
	defer func() {
		if x := recover(); x != nil {
			if _, ok := x.(verifStop); ok {
				panic(x)
			}
			o.panicked = true
		}
	}()
	if kind == 1 {
		var t vEnt16X
		o.err = req.ReadEntity(&t)
		o.n, o.s, o.a, o.aOK = t.N, t.S, t.N, true
	} else {
		var t vEnt16J
		o.err = req.ReadEntity(&t)
		o.n, o.s = t.N, t.S
		o.a, o.aOK = verifAsInt64(t.A)
	}
	return
}

// v16Coding: the Content-Encoding the request declares.
func v16Coding(coding int) string {
	switch coding {
	case 1, 3:
		return ENCODING_GZIP
	case 2:
		return ENCODING_DEFLATE
	}
	return ""
}

// v16Pack: how the body is really encoded (coding 3: a gzip stream of two members).
func v16Pack(coding int) string {
	if coding == 3 {
		return "gzip2"
	}
	return v16Coding(coding)
}

func v16Value(tag string) (int64, string) {
	hi := nondetInt(tag+"hi", -2147483648, 2147483647)
	lo := nondetInt(tag+"lo", 0, 4294967295)
	n := int64(hi)<<32 | int64(lo)
	s := nondetString(tag+"s", 3)
	for i := 0; i < len(s); i++ {
		verifAssume(s[i] >= 'a' && s[i] <= 'z')
	}
	return n, s
}

// H_C16: write, then read back.
// kind: 0 JSON, 1 XML; coding of the request body: 0 none, 1 gzip, 2 deflate, 3 gzip in two members; provider as in vProvider;
// wmode: see v16Write; ctmode: how the request names the media type -
//
//	0 the Content-Type the writer set, verbatim; 1 that plus a symbolic parameter suffix (";charset=..." etc.);
//	2 no Content-Type header, the default request content type is the writer's; 3 an unregistered Content-Type with
//	that default; 4 an unregistered Content-Type and no default (reading must fail, not panic); 5/6 the writer's
//	Content-Type with/without a parameter suffix while the default names the other registered type;
//
// hist: requests read before, with the same provider - 0 none; 1 declared gzip, stream header destroyed; 2 declared
// gzip, stream cut short; 3 declared gzip, body not compressed; 4 declared deflate, destroyed; 5 plain, document cut
// short; 6 a well-formed gzip request carrying another value; 7 = 1 then 2; 8 = 4 then 6; 9 a well-formed request of
// the OTHER kind without a Content-Type header, read under a default request content type of that other kind; 10 the
// same with an unregistered Content-Type.
func H_C16(kind, coding, provider, wmode, ctmode, hist int) {
	led := vNewLedger(vProvider(provider))
	old := currentCompressorProvider
	SetCompressorProvider(led)
	defer SetCompressorProvider(old)
	defer DefaultRequestContentType("")

	n, s := v16Value("v")
	chunks, wct := v16Write(kind, wmode, n, s)
	verifObserveStr("written-content-type", wct)
	// (what the writer calls its output is C05's business; here the request simply repeats it)

	ct := wct
	switch ctmode {
	case 1:
		suffix := nondetString("ctsuffix", 8)
		verifAssume(vOr(suffix == "", strings.HasPrefix(strings.TrimLeft(suffix, " "), ";")))
		verifAssume(!strings.Contains(suffix, "/")) // a parameter that itself spells a media type is left open
		ct = wct + suffix
		verifCoverIf("content-type-with-parameter", len(suffix) > 3)
	case 2:
		ct = ""
		DefaultRequestContentType(wct)
	case 3:
		ct = "x/y"
		DefaultRequestContentType(wct)
	case 4:
		ct = "x/y"
	case 5, 6:
		// the writer's Content-Type (5: with a parameter suffix) while the default request content type names the OTHER
		// registered media type: the default is a fallback, not an override
		if ctmode == 5 {
			suffix := nondetString("ctsuffix", 8)
			verifAssume(strings.HasPrefix(strings.TrimLeft(suffix, " "), ";"))
			verifAssume(!strings.Contains(suffix, "/"))
			ct = wct + suffix
		}
		DefaultRequestContentType(v16Mime(1 - kind))
		verifCover("other-default-set")
	}

	// earlier requests
	steps := []int{}
	switch hist {
	case 0:
	case 7:
		steps = []int{1, 2}
	case 8:
		steps = []int{4, 6}
	default:
		steps = []int{hist}
	}
	for i, h := range steps {
		var o v16Out
		switch h {
		case 1:
			o = v16Read(kind, wct, ENCODING_GZIP, verifCorruptBody(verifPackBody(ENCODING_GZIP, chunks), 1))
		case 2:
			o = v16Read(kind, wct, ENCODING_GZIP, verifCorruptBody(verifPackBody(ENCODING_GZIP, chunks), 0))
		case 3:
			o = v16Read(kind, wct, ENCODING_GZIP, verifPackBody("", chunks))
		case 4:
			o = v16Read(kind, wct, ENCODING_DEFLATE, verifCorruptBody(verifPackBody(ENCODING_DEFLATE, chunks), 1))
		case 5:
			o = v16Read(kind, wct, "", verifCorruptBody(verifPackBody("", chunks), 0))
		case 9, 10:
			n2, s2 := v16Value("w")
			chunks2, wct2 := v16Write(1-kind, wmode&1, n2, s2)
			DefaultRequestContentType(wct2)
			ct2 := ""
			if h == 10 {
				ct2 = "x/y"
			}
			o = v16Read(1-kind, ct2, "", verifPackBody("", chunks2))
			DefaultRequestContentType("")
			if ctmode == 2 || ctmode == 3 {
				DefaultRequestContentType(wct)
			} else if ctmode >= 5 {
				DefaultRequestContentType(v16Mime(1 - kind))
			}
			verifAssert(!o.panicked, vMsg16Panic)
			verifAssert(o.err == nil, vMsg16Err)
			verifAssert(vImp(o.err == nil, vAnd(o.n == n2, o.s == s2)), vMsg16Equal)
			verifCover("earlier-request-other-kind")
			continue
		case 6:
			n2, s2 := v16Value("w")
			chunks2, wct2 := v16Write(kind, wmode&1, n2, s2)
			o = v16Read(kind, wct2, ENCODING_GZIP, verifPackBody(ENCODING_GZIP, chunks2))
			verifAssert(!o.panicked, vMsg16Panic)
			verifAssert(o.err == nil, vMsg16Err)
			verifAssert(vImp(o.err == nil, vAnd(vAnd(o.n == n2, o.s == s2), vAnd(o.aOK, o.a == n2))), vMsg16Equal)
			verifCover("earlier-good-request")
			continue
		}
		verifObserveBool("earlier-error-"+vItoa(i), o.err != nil)
		verifAssert(!o.panicked, vMsg16Panic)
		verifAssert(o.err != nil, vMsg16Broken)
		verifAssert(led.clean(), vMsg16Led)
		verifCover("earlier-broken-request")
	}

	o := v16Read(kind, ct, v16Coding(coding), verifPackBody(v16Pack(coding), chunks))
	verifObserveBool("error", o.err != nil)
	verifObserveBool("panicked", o.panicked)
	verifAssert(!o.panicked, vMsg16Panic)
	verifAssert(led.clean(), vMsg16Led)
	if ctmode == 4 {
		verifAssert(o.err != nil, vMsg16Broken)
		verifCover("unusable-content-type")
		return
	}
	verifAssert(o.err == nil, vMsg16Err)
	if o.err == nil {
		verifObserveStr("s", o.s)
		verifObserveBool("n-equal", o.n == n)
		verifAssert(vAnd(o.n == n, o.s == s), vMsg16Equal)
		verifAssert(vAnd(o.aOK, o.a == n), "C16: a 64-bit integer read back into an untyped field is not exactly the one written")
		verifCover("read-back")
		verifCoverIf("large-integer", vOr(n > 9007199254740993, n < -9007199254740993))
	}
}
