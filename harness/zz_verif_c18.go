package restful

import "strings"

// H_C18: CurlyRouter and RouterJSR311 agree wherever both are specified.
func H_C18(tbl, stage int) {
	t := vTableFor(tbl)
	h1 := vNewH(t)
	c1 := h1.build(CurlyRouter{})
	h2 := &vH{table: t, flat: h1.flat, cond: h1.cond}
	c2 := h2.build(RouterJSR311{})
	q := vSymRequest(stage, 12, 3, vSamplePaths(h1.flat))
	// recorded finding: the routers tokenise paths with empty segments or without a leading slash differently
	verifKnown("routers-noncanonical", vOr(!strings.HasPrefix(q.path, "/"), strings.Contains(q.path, "//")))
	verifKnown("jsr311-newline", strings.Contains(q.path, "\n"))
	if tbl == 27 {
		// recorded finding: the routers measure specificity differently (literal segments vs literal characters)
		segsK, _ := vSegments(q.path)
		verifKnown("routers-specificity-measure", vAnd(refPathMatch(h1.flat[0].toks, segsK) == refYes, refPathMatch(h1.flat[1].toks, segsK) == refYes))
	}
	o1 := h1.run(c1, q)
	o2 := h2.run(c2, q)
	if o1.invoked >= 0 {
		verifCover("invoked")
		verifObserveInt("route", o1.invoked)
	} else {
		verifCover("not-invoked")
		verifObserveInt("status", o1.status)
	}
	same := o1.panicked == o2.panicked && o1.invoked == o2.invoked && o1.status == o2.status
	verifAssert(same, "C18: CurlyRouter and RouterJSR311 give different outcomes")
	if same {
		verifAssert(vSameParams(o1.params, o2.params), "C18: CurlyRouter and RouterJSR311 bind different path parameter values")
		a1, a2 := vAllowSet(o1.allow), vAllowSet(o2.allow)
		verifAssert(strings.Join(a1, ",") == strings.Join(a2, ","), "C18: CurlyRouter and RouterJSR311 answer 405 with different Allow sets")
	}
}
