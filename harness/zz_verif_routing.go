package restful

import (
	"sort"
	"strings"
)

// vOut is the framework-decided outcome of one dispatch.
type vOut struct {
	invoked  int // route id, -1 if no route function ran
	nInvoked int
	status   int
	allow    string
	params   map[string]string
	selPath  string
	panicked bool
}

// run dispatches q on c and collects the outcome.
func (h *vH) run(c *Container, q vReq) vOut {
	h.invoked, h.selPath, h.selMeth, h.params, h.panicked = nil, nil, nil, nil, false
	rec := vNewRec()
	h.dispatch(c, rec, q.http())
	o := vOut{invoked: -1, nInvoked: len(h.invoked), status: rec.code(), panicked: h.panicked}
	if len(h.invoked) > 0 {
		o.invoked = h.invoked[0]
		o.params = h.params[0]
		o.selPath = h.selPath[0]
	}
	if v, ok := rec.out()["Allow"]; ok && len(v) > 0 {
		o.allow = v[0]
	}
	return o
}

// runServe: the same through the container's ServeMux (Container.ServeHTTP).
func (h *vH) runServe(c *Container, q vReq) vOut {
	h.invoked, h.selPath, h.selMeth, h.params, h.panicked = nil, nil, nil, nil, false
	rec := vNewRec()
	func() {
		defer func() {
			if x := recover(); x != nil {
				if _, ok := x.(verifStop); ok {
					panic(x)
				}
				h.panicked = true
			}
		}()
		c.ServeHTTP(rec, q.http())
	}()
	o := vOut{invoked: -1, nInvoked: len(h.invoked), status: rec.code(), panicked: h.panicked}
	if len(h.invoked) > 0 {
		o.invoked = h.invoked[0]
	}
	return o
}

// vAllowSet parses a concrete Allow header into a sorted, de-duplicated list.
func vAllowSet(allow string) []string {
	var out []string
	for _, m := range strings.Split(allow, ",") {
		m = strings.TrimSpace(m)
		if m != "" && !vContains(out, m) {
			out = append(out, m)
		}
	}
	sort.Strings(out)
	return out
}

// ---------------------------------------------------------------- best service

// vRootKind: 0 literal, 1 variable-like (anything with a '{')
func vRootShape(toks []vTok) []int {
	var out []int
	for _, t := range toks {
		if t.kind == tkLit {
			out = append(out, 0)
		} else {
			out = append(out, 1)
		}
	}
	return out
}

// refRootRank decides which of two root templates wins when both match:
// 0: a, 1: b, 2: the statement does not say.
func refRootRank(a, b []vTok, jsr bool) int {
	sa, sb := vRootShape(a), vRootShape(b)
	if len(sa) == len(sb) {
		for i := range sa {
			if sa[i] != sb[i] {
				if jsr {
					return 2 // C03 excludes JSR311 variable roots
				}
				if sa[i] == 0 {
					return 0
				}
				return 1
			}
		}
		return 2 // same shape
	}
	// token-wise prefix: the longer wins
	short, long, longIs := a, b, 1
	if len(a) > len(b) {
		short, long, longIs = b, a, 0
	}
	for i := range short {
		if short[i].kind != long[i].kind || short[i].lit != long[i].lit || short[i].re != long[i].re {
			return 2
		}
		if jsr && short[i].kind != tkLit {
			return 2
		}
	}
	return longIs
}

// refRootMatch: does the root template match a prefix of the segments?
func refRootMatch(root []vTok, segs []string) int {
	if len(root) > len(segs) {
		return refNo
	}
	res := refYes
	for i, t := range root {
		res = vMin(res, refTokenMatch(t, segs[i]))
	}
	return res
}

func vRootToks(root string) []vTok {
	if root == "" || root == "/" {
		return nil
	}
	return vTemplateTokens(root)
}

// refBest computes, per service, the term "this is the best matching service"
// and whether the choice is definite (no unspecified verdict involved).
func (h *vH) refBest(segs []string, canon bool, jsr bool) (best []bool, definite bool) {
	n := len(h.table.services)
	ms := make([]int, n)
	roots := make([][]vTok, n)
	for i, s := range h.table.services {
		roots[i] = vRootToks(s.root)
		ms[i] = refRootMatch(roots[i], segs)
	}
	best = make([]bool, n)
	definite = canon
	for i := 0; i < n; i++ {
		definite = vAnd(definite, ms[i] != refUnspec)
		b := ms[i] == refYes
		for j := 0; j < n; j++ {
			if i == j {
				continue
			}
			rk := refRootRank(roots[i], roots[j], jsr)
			both := vAnd(ms[i] == refYes, ms[j] == refYes)
			switch rk {
			case 2:
				if i < j {
					definite = vAnd(definite, !both)
				}
			case 1: // j wins
				b = vAnd(b, ms[j] != refYes)
			}
		}
		best[i] = b
	}
	return best, definite
}

// ---------------------------------------------------------------- expected outcome (C02)

type vExpect struct {
	definite bool
	inA      []bool // per route: may run
	anyA     bool
	status   int    // expected status when no route runs (term)
	stDef    bool   // the status is specified
	inP      []bool // per route: path-matching in the best service (for Allow)
}

func vIsPPP(m string) bool { return vOr(m == "POST", vOr(m == "PUT", m == "PATCH")) }

// refOutcome is the reference semantics of C02.
func (h *vH) refOutcome(q vReq, segs []string, canon bool, jsr bool) vExpect {
	best, def := h.refBest(segs, canon, jsr)
	n := len(h.flat)
	e := vExpect{inA: make([]bool, n), inP: make([]bool, n)}
	anyP, anyM, anyC, anyA := false, false, false, false
	for i, f := range h.flat {
		pm := refPathMatch(f.toks, segs)
		inBest := best[f.svc]
		// only verdicts of routes in the best service decide anything
		def = vAnd(def, vOr(!inBest, pm != refUnspec))
		p := vAnd(inBest, vAnd(pm == refYes, h.cond[i]))
		m := vAnd(p, q.method == f.route.method)
		cv := refConsumes(f.route, q.ctype)
		def = vAnd(def, vOr(!m, cv != refUnspec))
		c := vAnd(m, cv == refYes)
		av := refProduces(f.route, q.accept)
		def = vAnd(def, vOr(!c, av != refUnspec))
		a := vAnd(c, av == refYes)
		e.inP[i], e.inA[i] = p, a
		anyP, anyM, anyC, anyA = vOr(anyP, p), vOr(anyM, m), vOr(anyC, c), vOr(anyA, a)
	}
	e.anyA = anyA
	e.definite = def
	bodySent := q.clen > 0
	hdrEmpty := vOr(q.clHdr == "", q.clHdr == "0")
	bodiless := vAnd(!bodySent, hdrEmpty)
	ppp := vIsPPP(q.method)
	// status when nothing runs
	// no consumer left: 415 if a body was sent; else bodiless POST/PUT/PATCH 415; else 406
	noC := vIte(bodySent, 415, vIte(ppp, 415, 406))
	noCdef := vOr(bodySent, vOr(!ppp, hdrEmpty))
	// consumers left but nothing acceptable
	noA := vIte(vAnd(ppp, bodiless), 415, 406)
	noAdef := vOr(!ppp, vOr(bodiless, vAnd(bodySent, !hdrEmpty)))
	e.status = vIte(!anyP, 404, vIte(!anyM, 405, vIte(!anyC, noC, noA)))
	e.stDef = vOr(!anyP, vOr(!anyM, vIteB(!anyC, noCdef, noAdef)))
	return e
}

// vKnownRouting registers the input classes of recorded findings that concern
// request matching (see /verif/known_findings.json and DESIGN.md section 6).
func vKnownRouting(q vReq, router int) {
	// RouterJSR311 builds its expressions with "(/.*)?$": '.' does not match a
	// newline, so a URL with 0x0A behind the matched prefix is answered 404.
	verifKnown("jsr311-newline", vAnd(router == 1, strings.Contains(q.path, "\n")))
}
