package restful

import (
	"errors"
	"net/http"
)

// generated filters with nondeterministic behaviour bits
type vFilt struct {
	id      int
	stop    bool // does not pass control on
	replace bool // passes a new Request/Response pair on
	attr    bool // sets an attribute
	mw      bool // is an http middleware wrapped by HttpMiddlewareHandlerToFilter
}

type vChain struct {
	h        *vH
	filts    []*vFilt
	log      []string
	curReq   *Request
	curResp  *Response
	expAttr  map[string]int
	wrong    bool
	curRec   *vRec // the recorder behind the response wrapper most recently passed on
	seenAfter int  // status filter 0 observed on its Response after the chain returned (0: not observed)
	panicAt  int // position at which to panic (-1 none): 2*i before filter i passes on, 2*i+1 after; 2*n handler before write, 2*n+1 after
	panicVal string
	panics   int // how many times a panic was raised
}

func (k *vChain) maybePanic(pos int) {
	if k.panicAt == pos {
		k.panics++
		panic(k.panicVal)
	}
}

func (k *vChain) filter(f *vFilt, pos int) FilterFunction {
	plain := func(req *Request, resp *Response, chain *FilterChain) {
		k.log = append(k.log, "f"+vItoa(f.id))
		if k.curReq != nil && (req != k.curReq || resp != k.curResp) {
			k.wrong = true
		}
		k.curReq, k.curResp = req, resp
		if f.attr {
			req.SetAttribute("k"+vItoa(f.id), f.id)
			k.expAttr["k"+vItoa(f.id)] = f.id
		}
		k.maybePanic(2 * pos)
		if f.stop {
			return
		}
		if f.replace {
			// like a status-capturing wrapper: the pair passed on writes somewhere else
			k.curRec = vNewRec()
			nreq, nresp := NewRequest(req.Request), NewResponse(k.curRec)
			k.curReq, k.curResp = nreq, nresp
			k.expAttr = map[string]int{}
			chain.ProcessFilter(nreq, nresp)
		} else {
			chain.ProcessFilter(req, resp)
			if f.id == 0 {
				k.seenAfter = resp.StatusCode()
			}
		}
		k.maybePanic(2*pos + 1)
	}
	if !f.mw {
		return plain
	}
	return HttpMiddlewareHandlerToFilter(func(next http.Handler) http.Handler {
		return http.HandlerFunc(func(w http.ResponseWriter, r *http.Request) {
			k.log = append(k.log, "f"+vItoa(f.id))
			k.maybePanic(2 * pos)
			if f.stop {
				return
			}
			next.ServeHTTP(w, r)
			k.maybePanic(2*pos + 1)
		})
	})
}

func (k *vChain) handler(req *Request, resp *Response) {
	k.log = append(k.log, "H")
	if k.curReq != nil && (req != k.curReq || resp != k.curResp) {
		k.wrong = true
	}
	for name, v := range k.expAttr {
		if got, ok := req.Attribute(name).(int); !ok || got != v {
			k.wrong = true
		}
	}
	n := len(k.filts)
	k.maybePanic(2 * n)
	resp.WriteHeader(201)
	resp.Write([]byte("ok"))
	k.maybePanic(2*n + 1)
}

// vChainContainer builds a container with nc/ns/nr filters at the three levels.
func vChainContainer(k *vChain, nc, ns, nr int, mwAt int) *Container {
	c := NewContainer()
	ws := new(WebService)
	ws.Path("/t")
	pos := 0
	mk := func() FilterFunction {
		f := &vFilt{id: pos, stop: nondetBool("stop" + vItoa(pos)), mw: pos == mwAt}
		// one extra behaviour bit per filter keeps the product small
		if pos%2 == 0 {
			f.replace = nondetBool("repl" + vItoa(pos))
		} else {
			f.attr = nondetBool("attr" + vItoa(pos))
		}
		k.filts = append(k.filts, f)
		fn := k.filter(f, pos)
		pos++
		return fn
	}
	for i := 0; i < nc; i++ {
		c.Filter(mk())
	}
	for i := 0; i < ns; i++ {
		ws.Filter(mk())
	}
	b := ws.GET("/a").To(k.handler)
	b.If(func(r *http.Request) bool {
		k.maybePanic(-5) // position -5: inside a route selection condition
		return r.Header.Get("X-Sib") == ""
	})
	for i := 0; i < nr; i++ {
		b.Filter(mk())
	}
	ws.Route(b)
	// a sibling with the same method and path, told apart by a condition, with a route filter of its own:
	// what it runs must never show up in a request for the route above
	sib := ws.GET("/a").To(func(req *Request, resp *Response) { k.log = append(k.log, "HS") })
	sib.If(func(r *http.Request) bool { return r.Header.Get("X-Sib") != "" })
	sib.Filter(func(req *Request, resp *Response, chain *FilterChain) {
		k.log = append(k.log, "S")
		chain.ProcessFilter(req, resp)
	})
	ws.Route(sib)
	c.Add(ws)
	return c
}

func vLogString(l []string) string {
	s := ""
	for _, e := range l {
		s += e + " "
	}
	return s
}

// refChainLog: the reference log for filters[lo:hi] followed by the handler.
func refChainLog(filts []*vFilt, upto int, withHandler bool) (logs []string, conds []bool) {
	// returns, for every possible stop position, the log and the condition under which it is the expected one
	passAll := true
	for s := 0; s < upto; s++ {
		var l []string
		for i := 0; i <= s; i++ {
			l = append(l, "f"+vItoa(filts[i].id))
		}
		logs = append(logs, vLogString(l))
		conds = append(conds, vAnd(passAll, filts[s].stop))
		passAll = vAnd(passAll, !filts[s].stop)
	}
	var l []string
	for i := 0; i < upto; i++ {
		l = append(l, "f"+vItoa(filts[i].id))
	}
	if withHandler {
		l = append(l, "H")
	}
	logs = append(logs, vLogString(l))
	conds = append(conds, passAll)
	return
}

// vFailRouter is a custom RouteSelector whose routing failures are plain errors, not ServiceErrors.
type vFailRouter struct{}

func (vFailRouter) SelectRoute(webServices []*WebService, httpRequest *http.Request) (*WebService, *Route, error) {
	return nil, nil, errors.New("verif: no route")
}

// H_C06: filters run container, service, route in order, each once, per request.
// mode 0: routed request via Dispatch; 1: request that fails routing; 2: HandleWithFilter via ServeHTTP;
// 3: routing fails in a custom RouteSelector that reports a plain error
func H_C06(nc, ns, nr, mwAt, mode int) {
	k := &vChain{panicAt: -1, expAttr: map[string]int{}}
	c := vChainContainer(k, nc, ns, nr, mwAt)
	if mode == 3 {
		c.Router(vFailRouter{})
	}
	plainRan := 0
	if mode == 2 {
		c.HandleWithFilter("/plain", http.HandlerFunc(func(w http.ResponseWriter, r *http.Request) {
			plainRan++
			k.log = append(k.log, "H")
			w.WriteHeader(202)
		}))
	}
	fp := verifFingerprint(c)
	// an earlier request must not influence this one
	if nondetBool("warmup") {
		saved := make([]bool, len(k.filts))
		for i, f := range k.filts {
			saved[i] = f.stop
			f.stop = false
		}
		wr := vReq{method: "GET", path: "/t/a"}.http()
		if nondetBool("warmsib") {
			wr.Header.Set("X-Sib", "1") // the earlier request went to the sibling route
		}
		c.Dispatch(vNewRec(), wr)
		for i, f := range k.filts {
			f.stop = saved[i]
		}
		k.log, k.curReq, k.curResp, k.wrong = nil, nil, nil, false
		k.expAttr = map[string]int{}
		verifCover("after-warmup")
	}
	rec := vNewRec()
	k.curRec = rec
	verifFrameBegin("dispatch", k, &plainRan)
	switch mode {
	case 0:
		c.Dispatch(rec, vReq{method: "GET", path: "/t/a"}.http())
	case 1, 3:
		c.Dispatch(rec, vReq{method: "GET", path: "/t/nomatch"}.http())
	case 2:
		c.ServeHTTP(rec, vReq{method: "GET", path: "/plain"}.http())
	}
	verifFrameEnd()
	verifAssert(verifFingerprint(c) == fp, "native: C06: serving a request wrote to state shared with other requests")
	got := vLogString(k.log)
	verifObserveStr("log", got)
	verifObserveInt("status", rec.code())
	upto := len(k.filts)
	withHandler := true
	if mode == 1 || mode == 3 {
		upto, withHandler = nc, false // only container filters run around the error response
	}
	if mode == 2 {
		upto = nc
	}
	logs, conds := refChainLog(k.filts, upto, withHandler)
	matched := false
	explained := false
	for i := range logs {
		if got == logs[i] {
			matched = true
			explained = vOr(explained, conds[i])
		}
	}
	if matched {
		verifAssert(explained, "C06: filters/handler ran in an order or number the pass-on decisions do not explain")
	}
	verifAssert(matched, "C06: the filter log is not a prefix of container, service, route filters in registration order")
	verifAssert(!k.wrong, "C06: a filter or the handler received a different request/response pair or attributes than the previous filter passed on")
	if mode == 1 {
		verifCover("routing-failure")
		// the error response goes to the pair the last filter passed on (if every filter passed on)
		allPassed := true
		for i := 0; i < nc; i++ {
			allPassed = vAnd(allPassed, !k.filts[i].stop)
		}
		verifAssert(vImp(allPassed, k.curRec.code() == 404), "C06: the routing error was not written to the response the container filters passed on")
	}
	if mode == 0 && len(k.log) > 0 && k.log[len(k.log)-1] == "H" && k.seenAfter != 0 {
		// filter 0 passed its own pair on; unless a later filter replaced the pair, what it observes afterwards
		// is what the handler sent
		noReplace := true
		for _, f := range k.filts {
			noReplace = vAnd(noReplace, !f.replace)
		}
		verifAssert(vImp(noReplace, k.seenAfter == 201), "C06: a filter does not observe the handler's status on the response it passed on")
	}
	if mode == 0 && len(k.log) > 0 && k.log[len(k.log)-1] == "H" {
		verifCover("handler-ran")
		verifAssert(k.curRec.code() == 201, "C06: the handler's response was not delivered to the response the filters passed on")
	}
}
