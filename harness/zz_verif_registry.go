package restful

// Native dispatch table for harnesses (the symbolic executor looks functions up
// by name in the SSA package instead).
var verifHarnesses = map[string]func(a []int){
	"H_probe_tokenize": func(a []int) { H_probe_tokenize(a[0]) },
	"H_C01":            func(a []int) { H_C01(a[0], a[1], a[2]) },
	"H_C02":            func(a []int) { H_C02(a[0], a[1], a[2]) },
	"H_C04":            func(a []int) { H_C04(a[0], a[1], a[2]) },
	"H_C14":            func(a []int) { H_C14(a[0], a[1], a[2]) },
	"H_C18":            func(a []int) { H_C18(a[0], a[1]) },
	"H_C03":            func(a []int) { H_C03(a[0], a[1], a[2]) },
	"H_C17":            func(a []int) { H_C17(a[0], a[1]) },
	"H_C08":            func(a []int) { H_C08(a[0]) },
	"H_C08_two":        func(a []int) { H_C08_two(a[0]) },
	"H_C12":            func(a []int) { H_C12(a[0], a[1], a[2], a[3]) },
	"H_C12_sched":      func(a []int) { H_C12_sched(a[0], a[1], a[2], a[3], a[4]) },
	"H_C13_conc":       func(a []int) { H_C13_conc(a[0], a[1], a[2], a[3]) },
	"H_C13_sched":      func(a []int) { H_C13_sched(a[0], a[1], a[2], a[3]) },
	"H_C13_read":       func(a []int) { H_C13_read(a[0], a[1]) },
	"H_C19_route":      func(a []int) { H_C19_route(a[0], a[1]) },
	"H_C19_cors":       func(a []int) { H_C19_cors(a[0]) },
	"H_C19_attrs":      func(a []int) { H_C19_attrs(a[0]) },
	"H_C19_conc":       func(a []int) { H_C19_conc(a[0], a[1], a[2]) },
	"H_C19_chain":      func(a []int) { H_C19_chain(a[0], a[1], a[2]) },
	"H_C11":            func(a []int) { H_C11(a[0], a[1], a[2], a[3], a[4], a[5]) },
	"H_C10":            func(a []int) { H_C10(a[0], a[1], a[2], a[3], a[4], a[5]) },
	"H_C07":            func(a []int) { H_C07(a[0], a[1], a[2], a[3], a[4]) },
	"H_C05":            func(a []int) { H_C05(a[0], a[1], a[2], a[3], a[4]) },
	"H_C05_seq":        func(a []int) { H_C05_seq(a[0], a[1]) },
	"H_C15":            func(a []int) { H_C15(a[0], a[1]) },
	"H_C06":            func(a []int) { H_C06(a[0], a[1], a[2], a[3], a[4]) },
	"H_C09":            func(a []int) { H_C09(a[0]) },
}
