package restful

// Native dispatch table for harnesses (the symbolic executor looks functions up
// by name in the SSA package instead).
var verifHarnesses = map[string]func(a []int){
	"H_probe_tokenize": func(a []int) { H_probe_tokenize(a[0]) },
	"H_C01":            func(a []int) { H_C01(a[0], a[1], a[2]) },
}
