package restful

const (
	vMsgRace12  = "C12: data race between serving a request and changing registrations"
	vMsgStuck12 = "C12: serving a request and changing registrations can deadlock"
)

// H_C12: services and routes can change while requests are being served.
// op: 0 Add(ws), 1 Remove(ws), 2 Route on a dynamic service, 3 RemoveRoute; router: 0 Curly, 1 JSR311; entry: 0 Dispatch, 1 ServeHTTP
// target: 0 the request goes to the service being changed, 1 to another one, 2 OPTIONS request through the OPTIONS filter
func H_C12(op, router, entry, target int) {
	c := NewContainer()
	c.Router(vRouter(router))
	hits := 0
	mk := func(root string) *WebService {
		ws := new(WebService)
		ws.Path(root)
		ws.SetDynamicRoutes(true)
		ws.Route(ws.GET("/r").To(func(req *Request, resp *Response) { hits++ }))
		ws.Route(ws.GET("/s").To(func(req *Request, resp *Response) { hits++ }))
		return ws
	}
	a, b := mk("/a"), mk("/b")
	c.Add(a)
	c.Add(b)
	extra := mk("/c")
	path := "/a/r"
	method := "GET"
	if target == 1 {
		path = "/b/r"
	}
	if target == 2 {
		// an OPTIONS request answered by the OPTIONS filter, which walks the registrations itself
		c.Filter(c.OPTIONSFilter)
		method = "OPTIONS"
	}
	rec := vNewRec()
	req := vReq{method: method, path: path}.http()
	verifSpawn(func() {
		if entry == 0 {
			c.Dispatch(rec, req)
		} else {
			c.ServeHTTP(rec, req)
		}
	})
	verifSpawn(func() {
		switch op {
		case 0:
			c.Add(extra)
		case 1:
			c.Remove(a)
		case 2:
			a.Route(a.GET("/x").To(func(req *Request, resp *Response) {}))
		case 3:
			a.RemoveRoute("/a/s", "GET")
		}
	})
	verifRunThreads(vMsgRace12, vMsgStuck12)
	verifCover("ran")
}
