package restful

const (
	vMsgRace12  = "C12: data race between serving a request and changing registrations"
	vMsgStuck12 = "C12: serving a request and changing registrations can deadlock"
)

// H_C12: services and routes can change while requests are being served.
// op: 0 Add(ws), 1 Remove(ws), 2 Route on a dynamic service, 3 RemoveRoute; router: 0 Curly, 1 JSR311; entry: 0 Dispatch, 1 ServeHTTP
// router >= 10: thorough variant with a third thread (a second change of another kind)
// target: 0 the request goes to the service being changed, 1 to another one, 2 OPTIONS request through the OPTIONS filter
func H_C12(op, router, entry, target int) {
	type world struct {
		c           *Container
		a, b, extra *WebService
		hits        int
	}
	build := func() *world {
		w := &world{c: NewContainer()}
		w.c.Router(vRouter(router % 10))
		mk := func(root string) *WebService {
			ws := new(WebService)
			ws.Path(root)
			ws.SetDynamicRoutes(true)
			ws.Route(ws.GET("/r").To(func(req *Request, resp *Response) { w.hits++ }))
			ws.Route(ws.GET("/s").To(func(req *Request, resp *Response) { w.hits++ }))
			return ws
		}
		w.a, w.b = mk("/a"), mk("/b")
		w.c.Add(w.a)
		w.c.Add(w.b)
		w.extra = mk("/c")
		return w
	}
	mutate := func(w *world, route string) {
		switch op {
		case 0:
			w.c.Add(w.extra)
		case 1:
			w.c.Remove(w.a)
		case 2:
			w.a.Route(w.a.GET(route).To(func(req *Request, resp *Response) {}))
		case 3:
			w.a.RemoveRoute("/a/s", "GET")
		}
	}
	w := build()
	c := w.c
	path := "/a/r"
	method := "GET"
	if target == 1 {
		path = "/b/r"
	}
	if target == 2 {
		// an OPTIONS request answered by the OPTIONS filter, which walks the registrations itself
		c.Filter(c.OPTIONSFilter)
		method = "OPTIONS"
	}
	rec := vNewRec()
	req := vReq{method: method, path: path}.http()
	verifSpawn(func() {
		if entry == 0 {
			c.Dispatch(rec, req)
		} else {
			c.ServeHTTP(rec, req)
		}
	})
	verifSpawn(func() { mutate(w, "/x") })
	if router >= 10 {
		// thorough: a third thread performing a second change of another kind
		verifSpawn(func() {
			switch op {
			case 0, 1:
				w.b.Route(w.b.GET("/z").To(func(req *Request, resp *Response) {}))
			default:
				w.c.Add(w.extra)
			}
		})
	}
	verifRunThreads(vMsgRace12, vMsgStuck12)
	verifCover("ran")
	// sequential complement on a second, identical world (natively the threads above really changed the first one):
	// a request to a service that is not being changed is answered the same before and after the change
	// (together with race freedom: "as if no change were happening")
	if target == 1 {
		w2 := build()
		serve := func() (int, int) {
			before := w2.hits
			r := vNewRec()
			q := vReq{method: method, path: path}.http()
			if entry == 0 {
				w2.c.Dispatch(r, q)
			} else {
				w2.c.ServeHTTP(r, q)
			}
			return r.code(), w2.hits - before
		}
		s1, h1 := serve()
		mutate(w2, "/x")
		s2, h2 := serve()
		verifObserveInt("status-before", s1)
		verifObserveInt("status-after", s2)
		verifAssert(s1 == s2 && h1 == h2 && h1 == 1, "C12: a request to a service that is not being changed is answered differently after the change")
		verifCover("unrelated-compared")
	}
}
