package restful

const (
	vMsgRace12  = "C12: data race between serving a request and changing registrations"
	vMsgStuck12 = "C12: serving a request and changing registrations can deadlock"
)

// H_C12: services and routes can change while requests are being served.
// op: 0 Add(ws), 1 Remove(ws), 2 Route on a dynamic service, 3 RemoveRoute; router: 0 Curly, 1 JSR311; entry: 0 Dispatch, 1 ServeHTTP
// router >= 10: thorough variant with a third thread (a second change of another kind)
// target: 0 the request goes to the service being changed, 1 to another one, 2 OPTIONS request through the OPTIONS filter
func H_C12(op, router, entry, target int) {
	type world struct {
		c           *Container
		a, b, extra *WebService
		hits        int
	}
	build := func() *world {
		w := &world{c: NewContainer()}
		w.c.Router(vRouter(router % 10))
		mk := func(root string) *WebService {
			ws := new(WebService)
			ws.Path(root)
			ws.SetDynamicRoutes(true)
			ws.Route(ws.GET("/r").To(func(req *Request, resp *Response) { w.hits++ }))
			ws.Route(ws.GET("/s").To(func(req *Request, resp *Response) { w.hits++ }))
			return ws
		}
		w.a, w.b = mk("/a"), mk("/b")
		w.c.Add(w.a)
		w.c.Add(w.b)
		w.extra = mk("/c")
		return w
	}
	mutate := func(w *world, route string) {
		switch op {
		case 0:
			w.c.Add(w.extra)
		case 1:
			w.c.Remove(w.a)
		case 2:
			w.a.Route(w.a.GET(route).To(func(req *Request, resp *Response) {}))
		case 3:
			w.a.RemoveRoute("/a/s", "GET")
		}
	}
	w := build()
	c := w.c
	path := "/a/r"
	method := "GET"
	if target == 1 {
		path = "/b/r"
	}
	if target == 2 {
		// an OPTIONS request answered by the OPTIONS filter, which walks the registrations itself
		c.Filter(c.OPTIONSFilter)
		method = "OPTIONS"
	}
	rec := vNewRec()
	req := vReq{method: method, path: path}.http()
	verifSpawn(func() {
		if entry == 0 {
			c.Dispatch(rec, req)
		} else {
			c.ServeHTTP(rec, req)
		}
	})
	verifSpawn(func() { mutate(w, "/x") })
	if router >= 10 {
		// thorough: a third thread performing a second change of another kind
		verifSpawn(func() {
			switch op {
			case 0, 1:
				w.b.Route(w.b.GET("/z").To(func(req *Request, resp *Response) {}))
			default:
				w.c.Add(w.extra)
			}
		})
	}
	verifRunThreads(vMsgRace12, vMsgStuck12)
	verifCover("ran")
	// sequential complement on a second, identical world (natively the threads above really changed the first one):
	// a request to a service that is not being changed is answered the same before and after the change
	// (together with race freedom: "as if no change were happening")
	if target == 1 {
		w2 := build()
		serve := func() (int, int) {
			before := w2.hits
			r := vNewRec()
			q := vReq{method: method, path: path}.http()
			if entry == 0 {
				w2.c.Dispatch(r, q)
			} else {
				w2.c.ServeHTTP(r, q)
			}
			return r.code(), w2.hits - before
		}
		s1, h1 := serve()
		mutate(w2, "/x")
		s2, h2 := serve()
		verifObserveInt("status-before", s1)
		verifObserveInt("status-after", s2)
		verifAssert(s1 == s2 && h1 == h2 && h1 == 1, "C12: a request to a service that is not being changed is answered differently after the change")
		verifCover("unrelated-compared")
	}
}

// H_C12_sched: the value-level half of C12, by bounded interleaving exploration. A request and a registration change
// run as two threads; every interleaving with at most `pre` preemptions at lock acquisitions is explored on one state.
// Judged afterwards: (1) no panic, no deadlock; (2) the concurrent request was answered as the registration state
// before or after the change answers it; (3) the container that went through the concurrent phase answers a
// symbolic choice of later requests exactly like one on which the change was made with no request in flight.
// op, router, entry, target as in H_C12, plus op 4 (Remove the service, then add a route to it) and op 5 (add a method to an
// existing path); pre: preemption bound
func H_C12_sched(op, router, entry, target, pre int) {
	three := router >= 10 // thorough: a third thread makes a second change of another kind
	router %= 10
	type world struct {
		c           *Container
		a, b, extra *WebService
		hits        []string
	}
	build := func() *world {
		w := &world{c: NewContainer()}
		w.c.Router(vRouter(router))
		w.c.Filter(w.c.OPTIONSFilter)
		mk := func(root string) *WebService {
			ws := new(WebService)
			ws.Path(root)
			ws.SetDynamicRoutes(true)
			ws.Route(ws.GET("/r").To(func(req *Request, resp *Response) { w.hits = append(w.hits, root+"/r") }))
			ws.Route(ws.GET("/s").To(func(req *Request, resp *Response) { w.hits = append(w.hits, root+"/s") }))
			return ws
		}
		w.a, w.b = mk("/a"), mk("/b")
		w.c.Add(w.a)
		w.c.Add(w.b)
		w.extra = mk("/c")
		return w
	}
	mutate := func(w *world) {
		switch op {
		case 0:
			w.c.Add(w.extra)
		case 1:
			w.c.Remove(w.a)
		case 2:
			w.a.Route(w.a.POST("/x").To(func(req *Request, resp *Response) { w.hits = append(w.hits, "/a/x") }))
		case 3:
			w.a.RemoveRoute("/a/s", "GET")
		case 4:
			// two changes by one goroutine: the service goes away, then gets a route nobody can reach any more
			w.c.Remove(w.a)
			w.a.Route(w.a.POST("/x").To(func(req *Request, resp *Response) { w.hits = append(w.hits, "/a/x") }))
		case 5:
			// a method is added to a path that exists: a request with that method is 405 (Allow without it) or served
			w.a.Route(w.a.DELETE("/r").To(func(req *Request, resp *Response) { w.hits = append(w.hits, "DELETE /a/r") }))
		}
	}
	// states in between: what the registrations look like after the first of two changes
	mutateHalf := func(w *world) {
		if op == 4 {
			w.c.Remove(w.a)
		}
	}
	mutate2 := func(w *world) {
		switch op {
		case 0:
			w.b.Route(w.b.POST("/z").To(func(req *Request, resp *Response) { w.hits = append(w.hits, "/b/z") }))
		default:
			// (also next to Remove: two changes of the container's service list at once - neither may undo the other)
			w.c.Add(w.extra)
		}
	}
	type answer struct {
		status int
		hits   string
		allow  string
	}
	serve := func(w *world, method, path string) answer {
		w.hits = nil
		r := vNewRec()
		q := vReq{method: method, path: path}.http()
		if entry == 0 {
			w.c.Dispatch(r, q)
		} else {
			w.c.ServeHTTP(r, q)
		}
		return answer{r.code(), vLogString(w.hits), vHdr1(r, "Allow")}
	}
	// the concurrent request: to the route the change touches, to a route of the changed service it does not touch,
	// to another service, or an OPTIONS request (the OPTIONS filter walks the registrations itself)
	cm, cp := "GET", "/a/r"
	switch target {
	case 0:
		cp = []string{"/c/r", "/a/r", "/a/x", "/a/s", "/a/x", "/a/r"}[op]
		if op == 2 || op == 4 {
			cm = "POST"
		}
		if op == 5 {
			cm = "DELETE"
		}
	case 1:
		cp = "/b/r"
	case 2:
		cm, cp = "OPTIONS", []string{"/c/r", "/a/r", "/a/x", "/a/s", "/a/x", "/a/r"}[op]
	}
	w := build()
	var got answer
	verifSpawn(func() { got = serve(w, cm, cp) })
	verifSpawn(func() { mutate(w) })
	if three {
		verifSpawn(func() { mutate2(w) })
	}
	verifRunSchedules(pre, vMsgStuck12)
	verifCover("ran")
	// reference worlds: before the change, and after it was made with no request in flight
	before, after := build(), build()
	mutate(after)
	ab, aa := serve(before, cm, cp), serve(after, cm, cp)
	if op == 4 {
		// the state between the two changes existed too
		half := build()
		mutateHalf(half)
		if ah := serve(half, cm, cp); got == ah {
			ab = ah
		}
	}
	// recorded finding: the OPTIONS filter walks the registrations a second time
	verifKnown("options-filter-second-walk", entry == 1 && op == 1 && target == 2 && got.status == 200 && got.hits == "" && got.allow == "")
	verifKnown("options-filter-torn-walk", op == 4 && target == 2 && got.status == 200 && got.hits == "" && got.allow == "POST")
	if three {
		// the second change touches another service: the request's answer may also be that of the worlds in which only
		// the second, or both changes were made; later requests see both
		only2 := build()
		mutate2(only2)
		mutate2(after)
		a2, a12 := serve(only2, cm, cp), serve(after, cm, cp)
		verifAssert(got == ab || got == aa || got == a2 || got == a12, "C12: a request served while registrations change is answered according to no registration state that existed during it")
		aa = got // judged above
	}
	verifObserveInt("status", got.status)
	verifObserveStr("hits", got.hits)
	verifObserveStr("allow", got.allow)
	verifObserveStr("answer-before", vItoa(ab.status)+" "+ab.hits+" "+ab.allow)
	verifObserveStr("answer-after", vItoa(aa.status)+" "+aa.hits+" "+aa.allow)
	verifAssert(got == ab || got == aa, "C12: a request served while registrations change is answered according to no registration state that existed during it")
	if ab == aa {
		verifCover("unaffected-request")
	} else if got == aa {
		verifCover("saw-the-change")
	} else {
		verifCover("saw-the-old-state")
	}
	// later requests see exactly the changed registrations
	probes := [][2]string{{"DELETE", "/a/r"}, {"PUT", "/a/r"}, {"GET", "/a/r"}, {"GET", "/a/s"}, {"POST", "/a/x"}, {"GET", "/b/r"}, {"GET", "/c/r"}, {"OPTIONS", "/a/x"}, {"OPTIONS", "/a/s"}, {"OPTIONS", "/c/r"}, {"GET", "/a/x"}, {"POST", "/b/z"}, {"OPTIONS", "/b/z"}}
	for _, p := range probes {
		x, y := serve(w, p[0], p[1]), serve(after, p[0], p[1])
		verifAssert(x == y, "C12: after a registration change that overlapped a request, later requests are not answered according to the changed registrations")
	}
	verifCover("later-requests-compared")
}
