package restful

import (
	"compress/gzip"
	"compress/zlib"
	"net/http"
	"strings"
)

// ---------------------------------------------------------------- compressor ledger (C13 sequential half)

type vTrap struct{ n int }

func (t *vTrap) Write(b []byte) (int, error) { t.n += len(b); return len(b), nil }

// vLedger wraps a real provider and keeps account of what is handed out.
type vLedger struct {
	inner    CompressorProvider
	live     []interface{}
	acquired int
	released int
	bad      bool // release of something not live (double release / foreign object)
	shared   bool // a provider handed out an object that is still live
	trap     *vTrap
	yield    bool // interleaved mode: every provider call is a point where the scheduler may switch threads
}

func (l *vLedger) point() {
	if l.yield {
		verifYield()
	}
}

func vNewLedger(inner CompressorProvider) *vLedger { return &vLedger{inner: inner, trap: &vTrap{}} }

func (l *vLedger) take(o interface{}) {
	verifAtomicBegin()
	defer verifAtomicEnd()
	for _, x := range l.live {
		if x == o {
			l.shared = true
		}
	}
	l.live = append(l.live, o)
	l.acquired++
}

func (l *vLedger) give(o interface{}) {
	verifAtomicBegin()
	defer verifAtomicEnd()
	l.released++
	for i, x := range l.live {
		if x == o {
			l.live = append(append([]interface{}{}, l.live[:i]...), l.live[i+1:]...)
			return
		}
	}
	l.bad = true
}

func (l *vLedger) AcquireGzipWriter() *gzip.Writer {
	l.point()
	w := l.inner.AcquireGzipWriter()
	l.take(w)
	l.point()
	return w
}
func (l *vLedger) ReleaseGzipWriter(w *gzip.Writer) {
	l.point()
	l.give(w)
	w.Reset(l.trap) // any later use of the released object lands in the trap
	l.inner.ReleaseGzipWriter(w)
	l.point() // what the caller does next may already meet the object in other hands
}
func (l *vLedger) AcquireGzipReader() *gzip.Reader {
	l.point()
	r := l.inner.AcquireGzipReader()
	l.take(r)
	return r
}
func (l *vLedger) ReleaseGzipReader(r *gzip.Reader) {
	l.point()
	l.give(r)
	l.inner.ReleaseGzipReader(r)
	l.point()
}
func (l *vLedger) AcquireZlibWriter() *zlib.Writer {
	l.point()
	w := l.inner.AcquireZlibWriter()
	l.take(w)
	l.point()
	return w
}
func (l *vLedger) ReleaseZlibWriter(w *zlib.Writer) {
	l.point()
	l.give(w)
	w.Reset(l.trap)
	l.inner.ReleaseZlibWriter(w)
	l.point()
}

// clean: everything acquired was released exactly once and not used afterwards
func (l *vLedger) clean() bool {
	return !l.bad && !l.shared && len(l.live) == 0 && l.acquired == l.released && l.trap.n == 0
}

func vProvider(kind int) CompressorProvider {
	switch kind {
	case 1:
		return NewBoundedCachedCompressors(1, 1)
	case 2:
		return NewBoundedCachedCompressors(0, 0)
	}
	return NewSyncPoolCompessors()
}

// refWantsCoding: the coding the framework may apply for an Accept-Encoding
// value: the one mentioned first of gzip and deflate, "" if neither.
func refWantsCoding(ae string) (gz, df bool) {
	gi := strings.Index(ae, "gzip")
	zi := strings.Index(ae, "deflate")
	gz = vAnd(gi != -1, vOr(zi == -1, gi < zi))
	df = vAnd(zi != -1, vOr(gi == -1, zi <= gi))
	return
}

// H_C07: encoded responses decode to exactly what was written, and are labelled so.
// entry: 0 Dispatch, 1 ServeHTTP, 2 Handle, 3 HandleWithFilter, 4 ServeHTTP of an outer container (encoding on, one
// filter) that forwards to this container with HandleWithFilter
// cenc: container encoding 0/1; renc: route setting 0 unset, 1 off, 2 on
// kind: 0 handler writes, 1 routing error, 2 panic before output (recovery on), 3 panic after partial output (recovery on)
// provider: 0 sync.Pool, 1 bounded cache (1,1), 2 bounded cache (0,0)
func H_C07(entry, cenc, renc, kind, provider int) {
	led := vNewLedger(vProvider(provider))
	old := currentCompressorProvider
	SetCompressorProvider(led)
	defer SetCompressorProvider(old)
	c := NewContainer()
	c.EnableContentEncoding(cenc == 1)
	c.DoNotRecover(false)
	recovered := 0
	c.RecoverHandler(func(r interface{}, w http.ResponseWriter) {
		recovered++
		w.WriteHeader(500)
		w.Write([]byte("rec"))
	})
	c1 := []byte(nondetString("chunk1", 3))
	c2 := []byte(nondetString("chunk2", 3))
	twoChunks := nondetBool("two")
	late := 0
	if kind == 0 {
		late = []int{0, 204, 304, 500}[nondetChoice("late", 4)]
	}
	hijack := kind == 0 && nondetBool("hijack")
	// a handler that never calls Write (a DELETE answering 204, a handler that does nothing): an encoded response
	// must still be a complete stream of the coding it announces
	silent := kind == 0 && !hijack && nondetBool("silent")
	expected := ""
	body := func(w http.ResponseWriter) {
		if kind == 2 {
			panic("boom")
		}
		if silent {
			verifCover("handler-never-writes")
			if late != 0 {
				w.WriteHeader(late)
			}
			return
		}
		if hijack {
			// taking over the connection must not hand the compressor back while the response still uses it
			if hj, ok := w.(http.Hijacker); ok {
				hj.Hijack()
			}
		}
		w.WriteHeader(200)
		w.Write(c1)
		expected += string(c1)
		if kind == 3 {
			panic("boom")
		}
		if twoChunks {
			w.Write(c2)
			expected += string(c2)
		}
		if late != 0 {
			// a superfluous status after the body: too late to change anything, the stream must still be completed
			w.WriteHeader(late)
		}
	}
	ws := new(WebService)
	ws.Path("/t")
	b := ws.GET("/a").To(func(req *Request, resp *Response) { body(resp) })
	if renc == 1 {
		b.ContentEncodingEnabled(false)
	} else if renc == 2 {
		b.ContentEncodingEnabled(true)
	}
	ws.Route(b)
	// a second route with the opposite own setting, served first when "warmup" is chosen:
	// its setting must not stick to the container
	warm := ws.GET("/w").To(func(req *Request, resp *Response) { resp.WriteHeader(204) })
	warm.ContentEncodingEnabled(cenc == 0)
	ws.Route(warm)
	c.Add(ws)
	plain := http.HandlerFunc(func(w http.ResponseWriter, r *http.Request) { body(w) })
	// the switch may be thrown after the handler was registered: what counts is its position when the request arrives
	flip := (entry == 2 || entry == 3) && nondetBool("flip")
	if flip {
		c.EnableContentEncoding(cenc != 1)
	}
	if entry == 2 {
		c.Handle("/plain", plain)
	}
	if entry == 3 {
		c.Filter(func(req *Request, resp *Response, chain *FilterChain) { chain.ProcessFilter(req, resp) })
		c.HandleWithFilter("/plain", plain)
	}
	if flip {
		c.EnableContentEncoding(cenc == 1)
		verifCover("flipped")
	}
	ae := nondetString("ae", 12)
	preset := nondetBool("preset")
	path := "/t/a"
	if kind == 1 {
		path = "/t/nomatch"
		expected = "404: Page Not Found"
	}
	if entry == 2 || entry == 3 {
		path = "/plain"
	}
	rec := vNewRec()
	if preset {
		rec.hdr.Set("Content-Encoding", "identity")
	}
	// a client that has gone away: every write to the underlying writer fails
	rec.broken = nondetBool("broken")
	var outer *Container
	if entry == 4 {
		outer = NewContainer()
		outer.EnableContentEncoding(true)
		outer.Filter(func(req *Request, resp *Response, chain *FilterChain) { chain.ProcessFilter(req, resp) })
		outer.HandleWithFilter("/t/", c)
	}
	fp := verifFingerprint(c)
	if nondetBool("warmup") {
		c.Dispatch(vNewRec(), vHdrReq("GET", "/t/w", map[string]string{"Accept-Encoding": "gzip"}))
		verifCover("after-warmup")
	}
	req := vHdrReq("GET", path, map[string]string{"Accept-Encoding": ae})
	escaped := false
	verifFrameBegin("serve", led, rec, &expected, &recovered, &escaped)
	defer func() {
		verifAssert(verifFingerprint(c) == fp, "native: C07: serving a request changed the container's configuration")
	}()
	func() {
		defer func() {
			if x := recover(); x != nil {
				if _, ok := x.(verifStop); ok {
					panic(x)
				}
				escaped = true
			}
		}()
		if entry == 0 {
			c.Dispatch(rec, req)
		} else if entry == 4 {
			outer.ServeHTTP(rec, req)
		} else {
			c.ServeHTTP(rec, req)
		}
	}()
	verifFrameEnd()
	if rec.broken {
		// nothing reaches the client; what remains to be checked is the compressor ledger
		verifCover("broken-client")
		verifAssert(led.clean() || (escaped && entry >= 2), "C13: a compressor was lost, released twice or used after release")
		return
	}
	if kind >= 2 && (entry <= 1 || entry == 4) {
		verifAssert(recovered == 1 && !escaped, "C07: the panic was not handed to the recover handler exactly once")
		expected += "rec"
	}
	if escaped {
		// plain handlers have no recover point: the panic propagates, nothing to judge about the body
		verifCover("escaped")
		verifAssert(led.clean() || entry >= 2, "C13: a compressor was lost, released twice or used after release")
		return
	}
	// recorded finding: through ServeHTTP the route's own "encoding off" is ignored
	verifKnown("servehttp-route-override", (entry == 1 && cenc == 1 || entry == 4) && renc == 1 && kind != 1)
	ce := vHdr1(rec, "Content-Encoding")
	verifObserveStr("content-encoding", ce)
	verifObserveInt("status", rec.code())
	gz, df := refWantsCoding(ae)
	enabled := cenc == 1
	if entry <= 1 && kind != 1 && renc != 0 {
		enabled = renc == 2 // the route's own setting overrides the container's
	}
	if entry == 4 {
		enabled = true // the outer container encodes; the inner one must not encode again
	}
	if preset {
		verifCover("preset")
		verifAssert(ce == "identity", "C07: a Content-Encoding present on arrival was overwritten")
		payload, ok := verifDecodeBody(rec.chunks, "")
		verifAssert(ok && string(payload) == expected, "C07: body was encoded although the writer already carried a Content-Encoding")
	} else if ce == "" {
		verifCover("identity")
		payload, ok := verifDecodeBody(rec.chunks, "")
		verifAssert(ok && string(payload) == expected, "C07: unencoded body is not exactly the bytes written")
	} else {
		verifCover("encoded")
		verifAssert(ce == "gzip" || ce == "deflate", "C07: Content-Encoding names neither gzip nor deflate")
		verifAssert(enabled, "C07: a content coding was applied although encoding is not enabled for this request")
		verifAssert(vIteB(ce == "gzip", gz, df), "C07: the applied coding is not the one the Accept-Encoding header asks for first")
		payload, ok := verifDecodeBody(rec.chunks, ce)
		verifAssert(ok, "C07: the body is not one complete stream of the coding named in Content-Encoding")
		if ok {
			verifAssert(string(payload) == expected, "C07: decoding the body does not yield exactly the bytes written")
		}
	}
	verifAssert(led.clean(), "C13: a compressor was lost, released twice or used after release")
	verifObserveBool("ledger-clean", led.clean())
}
