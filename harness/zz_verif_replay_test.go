package restful

// Native replay driver: runs harnesses on concrete inputs (solver models) and
// reports assertion failures, covers and observations as JSON. Used to confirm
// every counterexample against the natively compiled package before it is
// reported, and to validate the symbolic executor against real execution.

import (
	"encoding/json"
	"fmt"
	"io/ioutil"
	"os"
	"testing"
)

type verifCase struct {
	Harness string
	Cfg     []int
	Inputs  map[string]interface{}
}

type verifResult struct {
	Failures []string
	Known    []string
	Covers   []string
	Obs      map[string]interface{}
	End      string
	Panic    string
}

func verifRunCase(c verifCase) (res verifResult) {
	verifCur = &verifRun{Inputs: c.Inputs, Obs: map[string]interface{}{}}
	res.End = "return"
	defer func() {
		if x := recover(); x != nil {
			if s, ok := x.(verifStop); ok {
				res.End = s.why
			} else {
				res.End = "panic"
				res.Panic = fmt.Sprint(x)
			}
		}
		res.Failures = verifCur.Failures
		res.Known = verifCur.Known
		res.Covers = verifCur.Covers
		res.Obs = verifCur.Obs
	}()
	f, ok := verifHarnesses[c.Harness]
	if !ok {
		panic("unknown harness " + c.Harness)
	}
	f(c.Cfg)
	return
}

func TestVerifReplay(t *testing.T) {
	in := os.Getenv("VERIF_REPLAY_IN")
	out := os.Getenv("VERIF_REPLAY_OUT")
	if in == "" {
		t.Skip("no replay input")
	}
	data, err := ioutil.ReadFile(in)
	if err != nil {
		t.Fatal(err)
	}
	var cases []verifCase
	if err := json.Unmarshal(data, &cases); err != nil {
		t.Fatal(err)
	}
	SetLogger(verifNullLogger{})
	results := make([]verifResult, len(cases))
	for i, c := range cases {
		results[i] = verifRunCase(c)
	}
	b, _ := json.Marshal(results)
	if out != "" {
		if err := ioutil.WriteFile(out, b, 0644); err != nil {
			t.Fatal(err)
		}
	} else {
		fmt.Println(string(b))
	}
}

type verifNullLogger struct{}

func (verifNullLogger) Print(v ...interface{})                 {}
func (verifNullLogger) Printf(format string, v ...interface{}) {}
