package restful

// Native replay driver: runs harnesses on concrete inputs (solver models) and
// reports assertion failures, covers and observations as JSON. Used to confirm
// every counterexample against the natively compiled package before it is
// reported, and to validate the symbolic executor against real execution.

import (
	"encoding/json"
	"fmt"
	"io/ioutil"
	"os"
	"strconv"
	"testing"
	"time"
)

type verifCase struct {
	Harness string
	Cfg     []int
	Inputs  map[string]interface{}
}

type verifResult struct {
	Failures []string
	Known    []string
	Covers   []string
	Obs      map[string]interface{}
	End      string
	Panic    string
}

func verifRunCase(c verifCase) (res verifResult) {
	verifCur = &verifRun{Inputs: c.Inputs, Obs: map[string]interface{}{}}
	res.End = "return"
	defer func() {
		if x := recover(); x != nil {
			if s, ok := x.(verifStop); ok {
				res.End = s.why
			} else {
				res.End = "panic"
				res.Panic = fmt.Sprint(x)
			}
		}
		res.Failures = verifCur.Failures
		res.Known = verifCur.Known
		res.Covers = verifCur.Covers
		res.Obs = verifCur.Obs
	}()
	f, ok := verifHarnesses[c.Harness]
	if !ok {
		panic("unknown harness " + c.Harness)
	}
	f(c.Cfg)
	return
}

func TestVerifReplay(t *testing.T) {
	in := os.Getenv("VERIF_REPLAY_IN")
	out := os.Getenv("VERIF_REPLAY_OUT")
	if in == "" {
		t.Skip("no replay input")
	}
	data, err := ioutil.ReadFile(in)
	if err != nil {
		t.Fatal(err)
	}
	var cases []verifCase
	if err := json.Unmarshal(data, &cases); err != nil {
		t.Fatal(err)
	}
	SetLogger(verifNullLogger{})
	results := make([]verifResult, len(cases))
	limit := 20 * time.Second
	if ms, err := strconv.Atoi(os.Getenv("VERIF_CASE_TIMEOUT_MS")); err == nil && ms > 0 {
		limit = time.Duration(ms) * time.Millisecond
	}
	for i := range results {
		results[i].End = "notrun"
	}
	for i, c := range cases {
		// a case that blocks forever (a lock taken twice by one goroutine) must not take the others with it:
		// it is reported as "hang" and the cases after it are left to a fresh process, since the blocked
		// goroutine may hold locks and has not restored package-level state
		done := make(chan verifResult, 1)
		go func() { done <- verifRunCase(c) }()
		hung := false
		select {
		case r := <-done:
			results[i] = r
		case <-time.After(limit):
			results[i] = verifResult{End: "hang"}
			hung = true
		}
		if hung {
			break
		}
	}
	b, _ := json.Marshal(results)
	if out != "" {
		if err := ioutil.WriteFile(out, b, 0644); err != nil {
			t.Fatal(err)
		}
	} else {
		fmt.Println(string(b))
	}
}

type verifNullLogger struct{}

func (verifNullLogger) Print(v ...interface{})                 {}
func (verifNullLogger) Printf(format string, v ...interface{}) {}
