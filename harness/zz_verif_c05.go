package restful

import "strings"

var vRegistered []string

// vRegister sets the registered-writer set: two short custom types (so that a
// short symbolic Accept header can name them) or the built-in ones.
func vRegister(builtin bool) {
	entityAccessRegistry.accessors = map[string]EntityReaderWriter{}
	if builtin {
		vRegistered = []string{MIME_JSON, MIME_XML}
		RegisterEntityAccessor(MIME_JSON, NewEntityAccessorJSON(MIME_JSON))
		RegisterEntityAccessor(MIME_XML, NewEntityAccessorXML(MIME_XML))
		return
	}
	vRegistered = []string{"a/J", "a/x"}
	RegisterEntityAccessor("a/J", NewEntityAccessorJSON("a/J"))
	RegisterEntityAccessor("a/x", NewEntityAccessorXML("a/x"))
}

func vProducesCfg(k int) []string {
	switch k {
	case 0:
		return []string{"a/x"}
	case 1:
		return []string{"a/J", "a/x"}
	case 2:
		return []string{"a/x", "a/J"}
	case 3:
		return []string{MIME_XML}
	case 4, 14:
		return []string{MIME_JSON, MIME_XML}
	case 13:
		return []string{MIME_XML}
	}
	return []string{"u/u", "a/J"} // first entry has no registered writer
}

func vDigit(b int) bool { return vAnd(b >= '0', b <= '9') }

// refQValue: q in thousandths for the spellings D, D.D, D.DD, D.DDD with a
// value in (0,1]; anything else is left unspecified.
func refQValue(v string) (q int, ok bool) {
	d0, d2, d3, d4 := vByte(v, 0), vByte(v, 2), vByte(v, 3), vByte(v, 4)
	n := len(v)
	shape := vOr(vAnd(n == 1, vDigit(d0)),
		vAnd(vAnd(vDigit(d0), vByte(v, 1) == '.'),
			vOr(vAnd(n == 3, vDigit(d2)), vOr(vAnd(n == 4, vAnd(vDigit(d2), vDigit(d3))), vAnd(n == 5, vAnd(vDigit(d2), vAnd(vDigit(d3), vDigit(d4))))))))
	q = (d0 - '0') * 1000
	q += vIte(n >= 3, (d2-'0')*100, 0)
	q += vIte(n >= 4, (d3-'0')*10, 0)
	q += vIte(n >= 5, d4-'0', 0)
	return q, vAnd(shape, vAnd(q > 0, q <= 1000))
}

// refParseRange: media type and q of one Accept range, optional whitespace discarded.
func refParseRange(rng string, maxParams int) (media string, q int, def bool) {
	si := strings.Index(rng, ";")
	has := si != -1
	media = strings.Trim(vIteStr(has, vSubstr(rng, 0, si), rng), " ")
	q, def = 1000, true
	rest := vSubstr(rng, si+1, len(rng))
	more := has
	seenQ := false
	for p := 0; p < maxParams; p++ {
		pi := strings.Index(rest, ";")
		hasP := pi != -1
		par := vIteStr(hasP, vSubstr(rest, 0, pi), rest)
		ei := strings.Index(par, "=")
		name := strings.Trim(vSubstr(par, 0, ei), " ")
		val := strings.Trim(vSubstr(par, ei+1, len(par)), " ")
		isQ := vAnd(more, vAnd(ei != -1, name == "q"))
		qv, qok := refQValue(val)
		def = vAnd(def, vOr(!isQ, vAnd(qok, !seenQ)))
		q = vIte(isQ, qv, q)
		seenQ = vOr(seenQ, isQ)
		rest = vSubstr(rest, pi+1, len(rest))
		more = vAnd(more, hasP)
	}
	// a wildcard subtype is not ranked by the statement
	def = vAnd(def, !vAnd(strings.HasSuffix(media, "/*"), media != "*/*"))
	return
}

// refChoice: index into produces of the entry the range selects, -1 if none.
func refRangeChoice(produces []string, media string) int {
	firstReg := -1
	for i := len(produces) - 1; i >= 0; i-- {
		if vContains(vRegistered, produces[i]) {
			firstReg = i
		}
	}
	res := vIte(media == "*/*", firstReg, -1)
	for i := len(produces) - 1; i >= 0; i-- {
		if vContains(vRegistered, produces[i]) {
			res = vIte(media == produces[i], i, res)
		}
	}
	return res
}

// H_C05: the written entity's media type is produced by the route and best for Accept.
// part/nparts: this run covers the headers whose key (length, plus capacity+1 if there is a comma) is congruent to part modulo nparts
// mode 3: skeleton "<type>;<name>=<value>,<type>" with a symbolic parameter name (1 or 2 bytes) and value (exactly capN bytes)
// mode 0: <=2 ranges, <=1 parameter each; 1: <=2 ranges, <=2 parameters; 2: built-in names with a symbolic tail
// mode 4: skeleton "<built-in name><capN symbolic bytes>,<built-in name>;q=0.<digit>"
func H_C05(prodCfg, mode, capN, part, nparts int) {
	vRegister(prodCfg == 3 || prodCfg == 4 || prodCfg == 13 || prodCfg == 14)
	// 13, 14: a default response content type is configured (JSON resp. XML)
	oldDefault := DefaultResponseMimeType
	defer func() { DefaultResponseMimeType = oldDefault }()
	if prodCfg == 13 {
		DefaultResponseContentType(MIME_JSON)
	}
	if prodCfg == 14 {
		DefaultResponseContentType(MIME_XML)
	}
	verifMapOrders(true)
	produces := vProducesCfg(prodCfg)
	maxParams := 1
	if mode == 1 {
		maxParams = 2
	}
	var accept string
	if mode == 2 {
		accept = []string{MIME_XML, MIME_JSON, "*/*"}[nondetChoice("head", 3)] + nondetString("tail", capN)
	} else if mode == 4 {
		// skeleton "<name><suffix>,<name>;q=0.<d>": the first range is a registered name followed by capN symbolic bytes
		// (a/Js is not a/J, as application/json-seq is not application/json), the second a registered name with a low weight
		menu := []string{"a/J", "a/x", "*/*"}
		sfx := nondetString("sfx", capN)
		verifAssume(vAnd(!strings.Contains(sfx, ","), !strings.Contains(sfx, ";")))
		accept = menu[nondetChoice("m0", 3)] + sfx + "," + menu[nondetChoice("m1", 3)] + ";q=0." + nondetFixed("q1", 1)
	} else if mode == 3 {
		// skeleton: two ranges over registered types or */*, each with one parameter whose name and
		// value are symbolic (capN bytes together); reaches parameter handling at a small cost
		menu := []string{"a/J", "a/x", "*/*"}
		maxParams = 1
		accept = menu[nondetChoice("m0", 3)] + ";" + nondetFixed("pn0", 1+nondetChoice("pnlen", 2)) + "=" + nondetFixed("pv0", capN) + "," + menu[nondetChoice("m1", 3)]
	} else {
		accept = nondetString("accept", capN)
	}
	verifAssume(strings.Count(accept, ",") <= 1)
	if nparts > 1 {
		// the input space is partitioned (by header length and by whether there is a second range) so
		// that cores share the work
		key := len(accept) + vIte(strings.Contains(accept, ","), capN+1, 0)
		verifAssume(key%nparts == part)
	}
	// stated bound on parameters per range
	ci := strings.Index(accept, ",")
	r0 := vIteStr(ci != -1, vSubstr(accept, 0, ci), accept)
	r1 := vSubstr(accept, ci+1, len(accept))
	verifAssume(strings.Count(r0, ";") <= maxParams)
	verifAssume(vOr(ci == -1, strings.Count(r1, ";") <= maxParams))
	// spaces only as optional whitespace: none inside media types or values is not enforced; the
	// reference parse trims every piece, so a space inside a token simply makes it an unknown type
	rec := vNewRec()
	var ct1, ct2 string
	h := vNewH(vTable{services: []vService{{root: "/t", routes: []vRoute{{method: "GET", path: "/a", produces: produces}}}}})
	c := NewContainer()
	ws := new(WebService)
	ws.Path("/t")
	ran := false
	var werr error
	badEnt := nondetBool("badentity")
	ws.Route(ws.GET("/a").Produces(produces...).To(func(req *Request, resp *Response) {
		ran = true
		// the same decision taken twice must agree (independent map iteration orders)
		w1, ok1 := resp.EntityWriter()
		w2, ok2 := resp.EntityWriter()
		verifAssert(ok1 == ok2 && w1 == w2, "C05: the same request does not always get the same representation (map iteration order)")
		if nondetBool("trace") {
			EnableTracing(true)
			w3, ok3 := resp.EntityWriter()
			EnableTracing(false)
			verifAssert(ok1 == ok3 && w1 == w3, "C05: trace logging changes the representation chosen for the same request")
		}
		werr = resp.WriteEntity(vPickEntity(badEnt))
	}))
	c.Add(ws)
	q := vReq{method: "GET", path: "/t/a", accept: accept}
	h.dispatch(c, rec, q.http())
	_ = ct2
	if !ran {
		verifCover("not-admitted")
		return
	}
	verifCover("admitted")
	ct1 = vHdr1(rec, "Content-Type")
	verifObserveInt("status", rec.code())
	verifObserveStr("content-type", ct1)
	verifAssert(rec.code() != 406, "C05: a request the router admitted on Accept grounds was answered 406 by the entity writer")
	if rec.code() == 406 {
		return
	}
	if werr != nil {
		// marshalling failed (stub): nothing was written, nothing to judge
		verifCover("marshal-error")
		return
	}
	// recorded finding: a configured default response content type is used when the Accept header is unusable,
	// whether or not the route produces it; the class covers exactly the answers equal to that default
	verifKnown("default-content-type-overrides-produces", vAnd(DefaultResponseMimeType != "" && !vContains(produces, DefaultResponseMimeType), ct1 == DefaultResponseMimeType))
	inProd := false
	for _, p := range produces {
		if vContains(vRegistered, p) {
			inProd = vOr(inProd, ct1 == p)
		}
	}
	verifAssert(inProd, "C05: response Content-Type is not a media type the route produces with a registered writer")
	// the reference choice
	def, choice, swap := refEntityChoice(produces, accept, maxParams)
	verifCoverIf("definite", vAnd(def, choice >= 0))
	verifCoverIf("q-decides", vAnd(def, swap))
	for i, p := range produces {
		verifAssert(vImp(vAnd(def, choice == i), ct1 == p), "C05: response Content-Type is not the producible type the Accept header ranks highest")
	}
}

// refEntityChoice: the index into produces the statement selects for an Accept header of at most two ranges
// (def: the statement decides; swap: the q-values reverse the header order).
func refEntityChoice(produces []string, accept string, maxParams int) (def bool, choice int, swap bool) {
	ci := strings.Index(accept, ",")
	r0 := vIteStr(ci != -1, vSubstr(accept, 0, ci), accept)
	r1 := vSubstr(accept, ci+1, len(accept))
	m0, q0, d0 := refParseRange(r0, maxParams)
	m1, q1, d1 := refParseRange(r1, maxParams)
	has1 := ci != -1
	def = vAnd(d0, vOr(!has1, d1))
	if DefaultResponseMimeType != "" {
		// with a configured default the statement does not say what an absent Accept header selects
		def = vAnd(def, len(accept) != 0)
	}
	c0 := refRangeChoice(produces, m0)
	c1 := vIte(has1, refRangeChoice(produces, m1), -1)
	swap = vAnd(has1, q1 > q0)
	first := vIte(swap, c1, c0)
	second := vIte(swap, c0, c1)
	choice = vIte(first >= 0, first, second)
	choice = vIte(len(accept) == 0, refRangeChoice(produces, "*/*"), choice)
	return
}

// H_C05_seq: the representation a request gets does not depend on the requests served before it. Two requests
// with the same symbolic Accept header go to routes with different Produces lists; the second answer is judged.
// cfg 0: GET /t/a produces [a/J], GET /t/b produces [a/x, a/J]
// cfg 1: two POST routes on one path, told apart by Consumes: a/J -> produces [a/J], a/x -> produces [a/x, a/J]
// cfg 2: as 0 with the built-in media types and a header made of their names
// cfg 3: as 0 with a first Produces entry that has no registered writer
// cfg + 10: the earlier request carries only the first range of the Accept header, cfg + 20: only the second.
func H_C05_seq(cfg, capN int) {
	fa := cfg / 10
	cfg = cfg % 10
	vRegister(cfg == 2)
	J, X := "a/J", "a/x"
	if cfg == 2 {
		J, X = MIME_JSON, MIME_XML
	}
	var accept string
	if cfg == 2 {
		menu := []string{X, J, "*/*", "text/html"}
		accept = menu[nondetChoice("m0", 4)] + ";q=0." + nondetFixed("q0", 1) + "," + menu[nondetChoice("m1", 4)]
		if capN > 0 {
			accept += nondetString("tail", capN)
		}
	} else {
		accept = nondetString("accept", capN)
	}
	verifAssume(strings.Count(accept, ",") <= 1)
	ci := strings.Index(accept, ",")
	r0 := vIteStr(ci != -1, vSubstr(accept, 0, ci), accept)
	r1 := vSubstr(accept, ci+1, len(accept))
	verifAssume(strings.Count(r0, ";") <= 1)
	verifAssume(vOr(ci == -1, strings.Count(r1, ";") <= 1))
	prods := [][]string{{J}, {X, J}}
	if cfg == 3 {
		// a first entry nobody can write: the Accept header may name it (the router admits the request) and
		// something that merely resembles a registered type
		prods = [][]string{{"u/u", J}, {"u/u", X, J}}
	}
	c := NewContainer()
	ws := new(WebService)
	ws.Path("/t")
	ran := -1
	for i := range prods {
		i := i
		var b *RouteBuilder
		if cfg == 1 {
			b = ws.POST("/c").Consumes([]string{J, X}[i])
		} else {
			b = ws.GET([]string{"/a", "/b"}[i])
		}
		ws.Route(b.Produces(prods[i]...).To(func(req *Request, resp *Response) {
			ran = i
			resp.WriteEntity(vEntity{A: 1, B: "x"})
		}))
	}
	c.Add(ws)
	mk := func(i int, acc string) vReq {
		if cfg == 1 {
			return vReq{method: "POST", path: "/t/c", ctype: []string{J, X}[i], accept: acc}
		}
		return vReq{method: "GET", path: []string{"/t/a", "/t/b"}[i], accept: acc}
	}
	first := nondetChoice("first", 2)
	second := nondetChoice("second", 2)
	// the earlier request carries the same Accept header, or only its first range, or only its second one (a memo
	// keyed or filled by one header must not answer for another)
	accept1 := accept
	if fa == 1 {
		accept1 = r0
	} else if fa == 2 {
		accept1 = r1
	}
	rec1 := vNewRec()
	c.Dispatch(rec1, mk(first, accept1).http())
	ran = -1
	rec := vNewRec()
	c.Dispatch(rec, mk(second, accept).http())
	if first == second && fa == 0 {
		verifCover("repeated")
		verifAssert(rec1.code() == rec.code() && vHdr1(rec1, "Content-Type") == vHdr1(rec, "Content-Type"), "C05: the same request does not always get the same representation")
	}
	if ran == -1 {
		verifCover("not-admitted")
		return
	}
	verifCover("admitted")
	verifAssert(ran == second, "C05: the request was served by another route")
	ct := vHdr1(rec, "Content-Type")
	verifObserveStr("content-type", ct)
	verifObserveInt("status", rec.code())
	produces := prods[second]
	inProd := false
	for _, p := range produces {
		if vContains(vRegistered, p) {
			inProd = vOr(inProd, ct == p)
		}
	}
	verifAssert(vOr(inProd, rec.code() == 406), "C05: after an earlier request, the response Content-Type is not a media type the route produces")
	def, choice, _ := refEntityChoice(produces, accept, 1)
	verifCoverIf("definite", vAnd(def, choice >= 0))
	for i, p := range produces {
		verifAssert(vImp(vAnd(def, choice == i), ct == p), "C05: after an earlier request, the response Content-Type is not the producible type the Accept header ranks highest")
	}
}
