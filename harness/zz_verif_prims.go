package restful

// Harness primitives. The symbolic executor in /verif/engine intercepts calls to
// these functions by name; the bodies below are the native meaning used when a
// harness is replayed with `go test -overlay` (concrete inputs from a replay
// file). This file is injected as an overlay; it is never part of go-restful.

import (
	"bytes"
	"compress/gzip"
	"compress/zlib"
	"encoding/json"
	"fmt"
	"io"
	"io/ioutil"
	"os"
	"reflect"
	"runtime"
	"sort"
	"strconv"
	"strings"
	"sync"
	"time"
)

type verifStop struct{ why string }

type verifRun struct {
	Inputs   map[string]interface{}
	Failures []string
	Known    []string
	Covers   []string
	Obs      map[string]interface{}
	End      string
}

var verifCur = &verifRun{Inputs: map[string]interface{}{}, Obs: map[string]interface{}{}}

func nondetString(name string, cap int) string {
	if v, ok := verifCur.Inputs[name]; ok {
		if s, ok := v.(string); ok {
			return s
		}
	}
	return ""
}

func nondetBool(name string) bool {
	if v, ok := verifCur.Inputs[name]; ok {
		if b, ok := v.(bool); ok {
			return b
		}
	}
	return false
}

func verifNum(v interface{}) (int, bool) {
	switch x := v.(type) {
	case float64:
		return int(x), true
	case int:
		return x, true
	case int64:
		return int(x), true
	}
	return 0, false
}

func nondetInt(name string, lo, hi int) int {
	if v, ok := verifCur.Inputs[name]; ok {
		if n, ok := verifNum(v); ok {
			return n
		}
	}
	return lo
}

func nondetChoice(name string, n int) int {
	if v, ok := verifCur.Inputs[name]; ok {
		if k, ok := verifNum(v); ok {
			return k
		}
	}
	return 0
}

func verifConcreteInt(v int, limit int) int { return v }

func verifAssume(cond bool) {
	if !cond {
		panic(verifStop{"assume"})
	}
}

func verifAssert(cond bool, msg string) {
	if !cond {
		verifCur.Failures = append(verifCur.Failures, msg)
	}
}

func verifCover(label string) { verifCur.Covers = append(verifCur.Covers, label) }

func verifKnown(id string, cond bool) {
	if cond {
		verifCur.Known = append(verifCur.Known, id)
	}
}

func verifUnspecified() { panic(verifStop{"unspecified"}) }

func verifObserveStr(key string, v string) { verifCur.Obs[key] = v }
func verifObserveInt(key string, v int)    { verifCur.Obs[key] = v }
func verifObserveBool(key string, v bool)  { verifCur.Obs[key] = v }

func verifMapOrders(on bool) {}
func verifTag(s string)      {}

// verifSymbolic reports whether the harness runs under the symbolic executor.
func verifSymbolic() bool { return false }

func verifFrameBegin(label string, owned ...interface{}) {}
func verifFrameEnd()                                      {}
func verifLocksFree() bool                                { return true }

var _ = fmt.Sprintf

// Term-level connectives: under the symbolic executor these build one term
// instead of forking the path (Go's && and || compile to branches).
func vAnd(a, b bool) bool { return a && b }
func vOr(a, b bool) bool  { return a || b }
func vImp(a, b bool) bool { return !a || b }
func vIte(c bool, a, b int) int {
	if c {
		return a
	}
	return b
}
func vIteB(c bool, a, b bool) bool {
	if c {
		return a
	}
	return b
}

// vIteStr: term-level conditional on strings.
func vIteStr(c bool, a, b string) string {
	if c {
		return a
	}
	return b
}

// vSubstr: s[lo:hi] with both bounds clamped into range (never panics).
func vSubstr(s string, lo, hi int) string {
	if lo < 0 {
		lo = 0
	}
	if lo > len(s) {
		lo = len(s)
	}
	if hi < lo {
		hi = lo
	}
	if hi > len(s) {
		hi = len(s)
	}
	return s[lo:hi]
}

// verifCoverIf records a reachability witness when cond can hold here,
// without splitting the path.
func verifCoverIf(label string, cond bool) {
	if cond {
		verifCur.Covers = append(verifCur.Covers, label)
	}
}

// vByte: s[i] as an int, 0 when i is out of range (never panics).
func vByte(s string, i int) int {
	if i < 0 || i >= len(s) {
		return 0
	}
	return int(s[i])
}

// verifDecodeBody returns the payload of a response body given as the
// sequence of writes the recorder received. coding "" means identity.
// verifKeep returns b as it is now: natively a copy (writers hand the same internal buffer to every Write call),
// symbolically the value itself (values are immutable there).
func verifKeep(b []byte) []byte { return append([]byte(nil), b...) }

// Natively the bytes are really decoded; under the symbolic executor a
// compressor stream is one opaque token ENC(coding, payload) and decoding
// succeeds iff the body is exactly one such token of that coding.
func verifDecodeBody(chunks [][]byte, coding string) ([]byte, bool) {
	var all []byte
	for _, c := range chunks {
		all = append(all, c...)
	}
	switch coding {
	case "":
		return all, true
	case "gzip":
		r, err := gzip.NewReader(bytes.NewReader(all))
		if err != nil {
			return nil, false
		}
		out, err := ioutil.ReadAll(r)
		if err != nil {
			return nil, false
		}
		return out, true
	case "deflate":
		r, err := zlib.NewReader(bytes.NewReader(all))
		if err != nil {
			return nil, false
		}
		out, err := ioutil.ReadAll(r)
		if err != nil {
			return nil, false
		}
		return out, true
	}
	return nil, false
}

// verifFingerprint renders everything reachable from v (following pointers,
// including unexported fields) as a string, so that a native run can tell
// whether serving a request changed configuration state. Locks, pools and
// function values are skipped. Under the symbolic executor the frame monitor
// does this job and the function returns "".
func verifFingerprint(v interface{}) string {
	var sb strings.Builder
	seen := map[uintptr]bool{}
	vFP(&sb, reflect.ValueOf(v), seen, 0)
	return sb.String()
}

func vFP(sb *strings.Builder, v reflect.Value, seen map[uintptr]bool, depth int) {
	if depth > 40 {
		sb.WriteString("<deep>")
		return
	}
	switch v.Kind() {
	case reflect.Invalid:
		sb.WriteString("<nil>")
	case reflect.Ptr:
		if v.IsNil() {
			sb.WriteString("nil")
			return
		}
		if seen[v.Pointer()] {
			sb.WriteString("<seen>")
			return
		}
		seen[v.Pointer()] = true
		sb.WriteString("&")
		vFP(sb, v.Elem(), seen, depth+1)
	case reflect.Interface:
		if v.IsNil() {
			sb.WriteString("nil")
			return
		}
		vFP(sb, v.Elem(), seen, depth+1)
	case reflect.Struct:
		tn := v.Type().String()
		if strings.HasPrefix(tn, "sync.") || strings.HasPrefix(tn, "atomic.") || tn == "regexp.Regexp" {
			sb.WriteString("<" + tn + ">")
			return
		}
		sb.WriteString(tn + "{")
		for i := 0; i < v.NumField(); i++ {
			sb.WriteString(v.Type().Field(i).Name + ":")
			vFP(sb, v.Field(i), seen, depth+1)
			sb.WriteString(",")
		}
		sb.WriteString("}")
	case reflect.Slice, reflect.Array:
		if v.Kind() == reflect.Slice && v.IsNil() {
			sb.WriteString("nil[]")
			return
		}
		sb.WriteString("[")
		for i := 0; i < v.Len(); i++ {
			vFP(sb, v.Index(i), seen, depth+1)
			sb.WriteString(",")
		}
		if v.Kind() == reflect.Slice && v.Cap() > v.Len() && v.CanAddr() || (v.Kind() == reflect.Slice && v.Cap() > v.Len()) {
			// the spare capacity of a shared backing array is state too
			sb.WriteString("|")
			full := v.Slice(0, v.Cap())
			for i := v.Len(); i < full.Len(); i++ {
				vFP(sb, full.Index(i), seen, depth+1)
				sb.WriteString(",")
			}
		}
		sb.WriteString("]")
	case reflect.Map:
		if v.IsNil() {
			sb.WriteString("nilmap")
			return
		}
		keys := v.MapKeys()
		strs := make([]string, len(keys))
		for i, k := range keys {
			var kb strings.Builder
			vFP(&kb, k, seen, depth+1)
			var vb strings.Builder
			vFP(&vb, v.MapIndex(k), seen, depth+1)
			strs[i] = kb.String() + "=" + vb.String()
		}
		sort.Strings(strs)
		sb.WriteString("map[" + strings.Join(strs, ";") + "]")
	case reflect.Func:
		if v.IsNil() {
			sb.WriteString("nilfunc")
		} else {
			sb.WriteString("func")
		}
	case reflect.Chan:
		sb.WriteString(fmt.Sprintf("chan(%d)", v.Len()))
	case reflect.String:
		sb.WriteString(strconv.Quote(v.String()))
	case reflect.Bool:
		sb.WriteString(strconv.FormatBool(v.Bool()))
	case reflect.Int, reflect.Int8, reflect.Int16, reflect.Int32, reflect.Int64:
		sb.WriteString(strconv.FormatInt(v.Int(), 10))
	case reflect.Uint, reflect.Uint8, reflect.Uint16, reflect.Uint32, reflect.Uint64, reflect.Uintptr:
		sb.WriteString(strconv.FormatUint(v.Uint(), 10))
	case reflect.Float32, reflect.Float64:
		sb.WriteString(strconv.FormatFloat(v.Float(), 'g', -1, 64))
	default:
		sb.WriteString("<" + v.Kind().String() + ">")
	}
}

// ---------------------------------------------------------------- threads
// Under the symbolic executor each spawned body is executed alone in recording
// mode and the schedule is a set of solver variables (DESIGN 2.8). Natively the
// bodies really run concurrently, with a watchdog; the replay driver repeats
// the case many times (and under -race for race findings).

var verifThreads []func()

func verifSpawn(f func()) { verifThreads = append(verifThreads, f) }

func verifRunThreads(raceMsg, stuckMsg string) {
	ths := verifThreads
	verifThreads = nil
	done := make(chan struct{}, len(ths))
	start := make(chan struct{})
	for _, f := range ths {
		f := f
		go func() {
			defer func() { recover(); done <- struct{}{} }()
			<-start
			f()
		}()
	}
	close(start)
	timeout := time.After(500 * time.Millisecond)
	for range ths {
		select {
		case <-done:
		case <-timeout:
			if stuckMsg != "" {
				verifCur.Failures = append(verifCur.Failures, stuckMsg)
			}
			return
		}
	}
}

// ---------------------------------------------------------------- schedules (interleaved mode)

// verifRunSchedules runs the spawned threads to completion and returns. Symbolically every interleaving with at most
// `preempts` preemptions at lock acquisitions is a path. Natively the threads are goroutines; when the case carries a
// "__schedule" input (thread index per lock acquisition, in order) and the package's locks have been replaced by the
// wrappers below (the replay driver does that in the overlaid copies of the sources), that order is enforced.
func verifRunSchedules(preempts int, stuckMsg string) {
	ths := verifThreads
	verifThreads = nil
	s := &verifSched
	s.mu.Lock()
	s.order, s.cursor, s.tids, s.active = nil, 0, map[int64]int{}, false
	if s.cond == nil {
		s.cond = sync.NewCond(&s.mu)
	}
	if v, ok := verifCur.Inputs["__schedule"].(string); ok && v != "" {
		for _, f := range strings.Split(v, ",") {
			n, _ := strconv.Atoi(f)
			s.order = append(s.order, n)
		}
		s.active = true
	}
	s.mu.Unlock()
	done := make(chan interface{}, len(ths))
	start := make(chan struct{})
	for i, f := range ths {
		i, f := i, f
		go func() {
			defer func() { done <- recover() }()
			s.mu.Lock()
			s.tids[verifGID()] = i
			s.mu.Unlock()
			<-start
			// a thread runs its first instruction only when the recorded order says it is its turn: between two
			// turn-taking points exactly one thread runs, as in the symbolic exploration
			s.mu.Lock()
			for s.active && s.cursor < len(s.order) && s.order[s.cursor] != i {
				s.cond.Wait()
			}
			s.mu.Unlock()
			f()
		}()
	}
	close(start)
	release := func() {
		s.mu.Lock()
		s.active = false
		s.cond.Broadcast()
		s.mu.Unlock()
	}
	var panicked interface{}
	timeout := time.After(500 * time.Millisecond)
	final := time.After(1500 * time.Millisecond)
	for n := 0; n < len(ths); {
		select {
		case x := <-done:
			n++
			if x != nil {
				panicked = x
			}
		case <-timeout:
			release() // the order could not be followed (the code no longer takes these locks): run freely
		case <-final:
			release()
			if stuckMsg != "" {
				verifCur.Failures = append(verifCur.Failures, stuckMsg)
			}
			panic(verifStop{"stuck"})
		}
	}
	release()
	if panicked != nil {
		panic(panicked) // a panic in a goroutine takes the process down
	}
}

type verifSchedT struct {
	mu     sync.Mutex
	cond   *sync.Cond
	order  []int
	cursor int
	tids   map[int64]int
	active bool
}

var verifSched verifSchedT

// (no package-level initialiser here: the symbolic executor runs the package's initialisers)
func verifSchedDebug() bool { return os.Getenv("VERIF_SCHED_DEBUG") != "" }

func verifGID() int64 {
	var buf [64]byte
	n := runtime.Stack(buf[:], false)
	f := strings.Fields(string(buf[:n]))
	if len(f) < 2 {
		return -1
	}
	id, _ := strconv.ParseInt(f[1], 10, 64)
	return id
}

// verifSchedAcquire performs a lock acquisition at its place in the enforced order.
func verifSchedAcquire(do func()) {
	s := &verifSched
	s.mu.Lock()
	tid, known := -1, false
	if s.active {
		tid, known = s.tids[verifGID()]
	}
	if !known {
		s.mu.Unlock()
		do()
		return
	}
	for s.active && s.cursor < len(s.order) && s.order[s.cursor] != tid {
		s.cond.Wait()
	}
	mine := s.active && s.cursor < len(s.order)
	if mine && verifSchedDebug() {
		_, file, line, _ := runtime.Caller(2)
		fmt.Printf("SCHED %d@%s:%d cursor=%d\n", tid, file[strings.LastIndex(file, "/")+1:], line, s.cursor)
	}
	s.mu.Unlock()
	do()
	if mine {
		s.mu.Lock()
		s.cursor++
		s.cond.Broadcast()
		s.mu.Unlock()
	}
}

// verifYield: an explicit point at which the scheduler may switch threads (interleaved mode); natively the
// goroutine takes its turn in the enforced order.
func verifYield() { verifSchedAcquire(func() {}) }

// verifAtomicBegin/End bracket harness bookkeeping that several threads share: natively one global lock, symbolically
// nothing (there is no switch point inside).
var verifAtomicMu sync.Mutex

func verifAtomicBegin() { verifAtomicMu.Lock() }
func verifAtomicEnd()   { verifAtomicMu.Unlock() }

// verifRWMutex / verifMutex stand in for sync.RWMutex / sync.Mutex in the instrumented copies of the sources.
type verifRWMutex struct{ m sync.RWMutex }

func (l *verifRWMutex) TryLock() bool { return l.m.TryLock() }
func (l *verifRWMutex) Lock()    { verifSchedAcquire(l.m.Lock) }
func (l *verifRWMutex) RLock()   { verifSchedAcquire(l.m.RLock) }
func (l *verifRWMutex) Unlock()  { l.m.Unlock() }
func (l *verifRWMutex) RUnlock() { l.m.RUnlock() }

type verifMutex struct{ m sync.Mutex }

func (l *verifMutex) Lock()   { verifSchedAcquire(l.m.Lock) }
func (l *verifMutex) Unlock() { l.m.Unlock() }

// nondetFixed: a nondeterministic string of exactly n bytes.
func nondetFixed(name string, n int) string { return nondetString(name, n) }

// ---------------------------------------------------------------- request bodies (C16)

// verifBody: a request body delivering b.
func verifBody(b []byte) io.ReadCloser { return ioutil.NopCloser(bytes.NewReader(b)) }

// verifPackBody joins the chunks and applies the coding ("" none, "gzip", "deflate"). Under the symbolic executor the
// result is one opaque token that the matching decompressor model opens again.
func verifPackBody(coding string, chunks [][]byte) []byte {
	var all []byte
	for _, c := range chunks {
		all = append(all, c...)
	}
	var buf bytes.Buffer
	switch coding {
	case "gzip":
		w := gzip.NewWriter(&buf)
		w.Write(all)
		w.Close()
	case "gzip2": // one gzip stream made of two members (RFC 1952 2.2), as a client compressing block by block sends
		for _, part := range [][]byte{all[:len(all)/2], all[len(all)/2:]} {
			w := gzip.NewWriter(&buf)
			w.Write(part)
			w.Close()
		}
	case "deflate":
		w := zlib.NewWriter(&buf)
		w.Write(all)
		w.Close()
	default:
		return all
	}
	return buf.Bytes()
}

// verifCorruptBody breaks a body: mode 0 cuts it in half, mode 1 destroys its first two bytes. Symbolically the
// result is an opaque byte string that no decoder or decompressor model accepts.
func verifCorruptBody(b []byte, mode int) []byte {
	if mode == 0 {
		return append([]byte(nil), b[:len(b)/2]...)
	}
	out := append([]byte(nil), b...)
	for i := 0; i < 2 && i < len(out); i++ {
		out[i] = 0xff
	}
	return out
}

// verifAsInt64: the integer an untyped decoded number stands for (json.Number with a number-preserving decoder,
// float64 otherwise).
func verifAsInt64(a interface{}) (int64, bool) {
	switch x := a.(type) {
	case int64:
		return x, true
	case json.Number:
		n, err := x.Int64()
		return n, err == nil
	case float64:
		return int64(x), true
	}
	return 0, false
}

// ---------------------------------------------------------------- sort.Slice
// The symbolic executor cannot run sort.Slice's reflection-based swapper; it runs verifSortSlice instead (the
// insertion sort sort.Slice itself uses below 12 elements). Natively sort.Slice runs as it is.
func verifSortSlice(x interface{}, less func(i, j int) bool) {
	n := verifSliceLen(x)
	for i := 1; i < n; i++ {
		for j := i; j > 0 && less(j, j-1); j-- {
			verifSliceSwap(x, j, j-1)
		}
	}
}

func verifSliceLen(x interface{}) int { return reflect.ValueOf(x).Len() }

func verifSliceSwap(x interface{}, i, j int) { reflect.Swapper(x)(i, j) }

// vContainerLocksFree: nothing holds the container's registration lock any more. Symbolically the lock model is asked
// (all locks); natively the write lock is tried, which is what the next Add or Remove would need.
func vContainerLocksFree(c *Container) bool {
	if verifSymbolic() {
		return verifLocksFree()
	}
	if c.webServicesLock.TryLock() {
		c.webServicesLock.Unlock()
		return true
	}
	return false
}
