package restful

// Harness primitives. The symbolic executor in /verif/engine intercepts calls to
// these functions by name; the bodies below are the native meaning used when a
// harness is replayed with `go test -overlay` (concrete inputs from a replay
// file). This file is injected as an overlay; it is never part of go-restful.

import (
	"bytes"
	"compress/gzip"
	"compress/zlib"
	"fmt"
	"io/ioutil"
)

type verifStop struct{ why string }

type verifRun struct {
	Inputs   map[string]interface{}
	Failures []string
	Known    []string
	Covers   []string
	Obs      map[string]interface{}
	End      string
}

var verifCur = &verifRun{Inputs: map[string]interface{}{}, Obs: map[string]interface{}{}}

func nondetString(name string, cap int) string {
	if v, ok := verifCur.Inputs[name]; ok {
		if s, ok := v.(string); ok {
			return s
		}
	}
	return ""
}

func nondetBool(name string) bool {
	if v, ok := verifCur.Inputs[name]; ok {
		if b, ok := v.(bool); ok {
			return b
		}
	}
	return false
}

func verifNum(v interface{}) (int, bool) {
	switch x := v.(type) {
	case float64:
		return int(x), true
	case int:
		return x, true
	case int64:
		return int(x), true
	}
	return 0, false
}

func nondetInt(name string, lo, hi int) int {
	if v, ok := verifCur.Inputs[name]; ok {
		if n, ok := verifNum(v); ok {
			return n
		}
	}
	return lo
}

func nondetChoice(name string, n int) int {
	if v, ok := verifCur.Inputs[name]; ok {
		if k, ok := verifNum(v); ok {
			return k
		}
	}
	return 0
}

func verifConcreteInt(v int, limit int) int { return v }

func verifAssume(cond bool) {
	if !cond {
		panic(verifStop{"assume"})
	}
}

func verifAssert(cond bool, msg string) {
	if !cond {
		verifCur.Failures = append(verifCur.Failures, msg)
	}
}

func verifCover(label string) { verifCur.Covers = append(verifCur.Covers, label) }

func verifKnown(id string, cond bool) {
	if cond {
		verifCur.Known = append(verifCur.Known, id)
	}
}

func verifUnspecified() { panic(verifStop{"unspecified"}) }

func verifObserveStr(key string, v string) { verifCur.Obs[key] = v }
func verifObserveInt(key string, v int)    { verifCur.Obs[key] = v }
func verifObserveBool(key string, v bool)  { verifCur.Obs[key] = v }

func verifMapOrders(on bool) {}
func verifTag(s string)      {}

// verifSymbolic reports whether the harness runs under the symbolic executor.
func verifSymbolic() bool { return false }

func verifFrameBegin(label string, owned ...interface{}) {}
func verifFrameEnd()                                      {}
func verifLocksFree() bool                                { return true }

var _ = fmt.Sprintf

// Term-level connectives: under the symbolic executor these build one term
// instead of forking the path (Go's && and || compile to branches).
func vAnd(a, b bool) bool { return a && b }
func vOr(a, b bool) bool  { return a || b }
func vImp(a, b bool) bool { return !a || b }
func vIte(c bool, a, b int) int {
	if c {
		return a
	}
	return b
}
func vIteB(c bool, a, b bool) bool {
	if c {
		return a
	}
	return b
}

// vIteStr: term-level conditional on strings.
func vIteStr(c bool, a, b string) string {
	if c {
		return a
	}
	return b
}

// vSubstr: s[lo:hi] with both bounds clamped into range (never panics).
func vSubstr(s string, lo, hi int) string {
	if lo < 0 {
		lo = 0
	}
	if lo > len(s) {
		lo = len(s)
	}
	if hi < lo {
		hi = lo
	}
	if hi > len(s) {
		hi = len(s)
	}
	return s[lo:hi]
}

// verifCoverIf records a reachability witness when cond can hold here,
// without splitting the path.
func verifCoverIf(label string, cond bool) {
	if cond {
		verifCur.Covers = append(verifCur.Covers, label)
	}
}

// vByte: s[i] as an int, 0 when i is out of range (never panics).
func vByte(s string, i int) int {
	if i < 0 || i >= len(s) {
		return 0
	}
	return int(s[i])
}

// verifDecodeBody returns the payload of a response body given as the
// sequence of writes the recorder received. coding "" means identity.
// Natively the bytes are really decoded; under the symbolic executor a
// compressor stream is one opaque token ENC(coding, payload) and decoding
// succeeds iff the body is exactly one such token of that coding.
func verifDecodeBody(chunks [][]byte, coding string) ([]byte, bool) {
	var all []byte
	for _, c := range chunks {
		all = append(all, c...)
	}
	switch coding {
	case "":
		return all, true
	case "gzip":
		r, err := gzip.NewReader(bytes.NewReader(all))
		if err != nil {
			return nil, false
		}
		out, err := ioutil.ReadAll(r)
		if err != nil {
			return nil, false
		}
		return out, true
	case "deflate":
		r, err := zlib.NewReader(bytes.NewReader(all))
		if err != nil {
			return nil, false
		}
		out, err := ioutil.ReadAll(r)
		if err != nil {
			return nil, false
		}
		return out, true
	}
	return nil, false
}
