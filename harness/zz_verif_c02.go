package restful

import "strings"

// H_C02: every request gets exactly one outcome; 404/405/415/406 are exact;
// dispatching never panics; trace logging does not change the outcome.
func H_C02(tbl, router, stage int) {
	t := vTableFor(tbl)
	h := vNewH(t)
	c := h.build(vRouter(router))
	pathCap := 12
	if stage%10 >= 2 {
		pathCap = 8
	}
	q := vSymRequest(stage, pathCap, 3, vSamplePaths(h.flat))
	vKnownRouting(q, router)
	o := h.run(c, q)
	verifAssert(!o.panicked, "C02: dispatch panicked")
	if o.panicked {
		return
	}
	verifAssert(o.nInvoked <= 1, "C02: more than one route function ran")
	segs, canon := vSegments(q.path)
	e := h.refOutcome(q, segs, canon, router == 1)
	verifCoverIf("definite", e.definite)
	verifCoverIf("indefinite", !e.definite)
	if o.invoked >= 0 {
		verifCover("invoked")
		verifObserveInt("route", o.invoked)
		verifAssert(vImp(e.definite, e.inA[o.invoked]), "C02: a route ran that does not match path, method, Content-Type and Accept in the best WebService")
	} else {
		verifObserveInt("status", o.status)
		verifObserveStr("allow", o.allow)
		verifAssert(vImp(e.definite, !e.anyA), "C02: no route function ran although one matches")
		verifAssert(vImp(vAnd(e.definite, vAnd(!e.anyA, e.stDef)), e.status == o.status), "C02: wrong error status")
		switch o.status {
		case 404:
			verifCover("404")
		case 405:
			verifCover("405")
			// Allow names exactly the methods of the path-matching routes
			allowed := vAllowSet(o.allow)
			var methods []string
			for _, f := range h.flat {
				if !vContains(methods, f.route.method) {
					methods = append(methods, f.route.method)
				}
			}
			for _, m := range methods {
				exp := false
				for i, f := range h.flat {
					if f.route.method == m {
						exp = vOr(exp, e.inP[i])
					}
				}
				verifAssert(vImp(e.definite, exp == vContains(allowed, m)), "C02: 405 Allow header does not name exactly the methods of the path-matching routes")
			}
			for _, m := range allowed {
				verifAssert(vContains(methods, m), "C02: 405 Allow header names a method no route has")
			}
		case 415:
			verifCover("415")
		case 406:
			verifCover("406")
		}
	}
	// trace logging on: same outcome
	EnableTracing(true)
	o2 := h.run(c, q)
	EnableTracing(false)
	verifAssert(o2.panicked == o.panicked && o2.invoked == o.invoked && o2.status == o.status && o2.allow == o.allow, "C02: trace logging changes the outcome")
	// through the container's own ServeMux (Container.ServeHTTP) the route that Dispatch runs must run as well.
	// Left open: the URL that is a root path written with a trailing slash, minus that slash - the ServeMux
	// answers it with a redirect to the root path.
	if stage%10 == 0 && o.invoked >= 0 {
		root := h.table.services[h.flat[o.invoked].svc].root
		// also left open: URLs the ServeMux itself rewrites (empty, "." and ".." segments are redirected to the clean URL)
		muxClean := vAnd(strings.HasPrefix(q.path, "/"), vAnd(!strings.Contains(q.path, "//"), vAnd(!strings.Contains(q.path, "/./"), vAnd(!strings.Contains(q.path, "/../"),
			vAnd(!strings.HasSuffix(q.path, "/."), !strings.HasSuffix(q.path, "/.."))))))
		// and: the URL that is the fixed prefix of some root path minus its trailing slash, when no root path has
		// exactly that URL as its fixed prefix - the ServeMux redirects it to the subtree pattern (this covers the
		// root path written with a trailing slash as well as /a in front of a root path /a/{v})
		redirected := false
		exact := false
		for _, sv := range h.table.services {
			fp := sv.root
			if i := strings.Index(fp, "{"); i >= 0 {
				fp = fp[:strings.LastIndex(fp[:i], "/")+1]
			}
			if strings.HasSuffix(fp, "/") && fp != "/" && q.path == strings.TrimRight(fp, "/") {
				redirected = true
			}
			if fp == q.path {
				exact = true
			}
		}
		_ = root
		if muxClean && !(redirected && !exact) {
			o3 := h.runServe(c, q)
			verifAssert(o3.invoked == o.invoked && o3.nInvoked == 1, "C02: the route that Dispatch runs is not run when the request comes through the container's ServeMux (ServeHTTP)")
			verifCover("via-servemux")
		}
	}
}
