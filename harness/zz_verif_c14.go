package restful

import "strings"

func vSameParams(a, b map[string]string) bool {
	if len(a) != len(b) {
		return false
	}
	same := true
	for k, v := range a {
		w, ok := b[k]
		if !ok {
			return false
		}
		same = vAnd(same, v == w)
	}
	return same
}

func vSameOutcome(a, b vOut) bool {
	if a.panicked != b.panicked || a.invoked != b.invoked || a.status != b.status || a.allow != b.allow {
		return false
	}
	return vSameParams(a.params, b.params)
}

// H_C14: a trailing slash on the request path changes nothing (default strategy).
func H_C14(tbl, router, stage int) {
	t := vTableFor(tbl)
	h := vNewH(t)
	c := h.build(vRouter(router))
	pathCap, maxSeg := 11, 3
	_, pathCap, maxSeg = vDeep(stage, pathCap, maxSeg)
	q := vReq{method: nondetString("method", 7)}
	p := nondetString("path", pathCap)
	verifAssume(!strings.HasSuffix(p, "/"))
	verifAssume(len(strings.Trim(p, "/")) > 0)
	if vMinSegs > maxSeg {
		maxSeg = vMinSegs // the table has longer templates than the usual bound
	}
	verifAssume(strings.Count(strings.Trim(p, "/"), "/") < maxSeg)
	// recorded finding: a regex variable that admits the empty string (table 23) under RouterJSR311
	// recorded finding: p names exactly the prefix in front of a last variable whose expression admits ""
	segsK, _ := vSegments(p)
	nullable := false
	for _, f := range h.flat {
		if n := len(f.toks); n > 0 && f.toks[n-1].kind == tkRegex && vRx("^(?:"+f.toks[n-1].re+")$").MatchString("") && len(segsK) == n-1 {
			nullable = true
		}
	}
	verifKnown("jsr311-nullable-regex-var", router == 1 && nullable)
	q.path = p
	o1 := h.run(c, q)
	q.path = p + "/"
	o2 := h.run(c, q)
	if o1.invoked >= 0 {
		verifCover("invoked")
		verifObserveInt("route", o1.invoked)
	} else {
		verifCover("not-invoked")
		verifObserveInt("status", o1.status)
	}
	verifAssert(vSameOutcome(o1, o2), "C14: a trailing slash on the request path changes the outcome")
}
