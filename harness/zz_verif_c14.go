package restful

import "strings"

func vSameParams(a, b map[string]string) bool {
	if len(a) != len(b) {
		return false
	}
	same := true
	for k, v := range a {
		w, ok := b[k]
		if !ok {
			return false
		}
		same = vAnd(same, v == w)
	}
	return same
}

func vSameOutcome(a, b vOut) bool {
	if a.panicked != b.panicked || a.invoked != b.invoked || a.status != b.status || a.allow != b.allow {
		return false
	}
	return vSameParams(a.params, b.params)
}

// H_C14: a trailing slash on the request path changes nothing (default strategy).
func H_C14(tbl, router, stage int) {
	t := vTableFor(tbl)
	h := vNewH(t)
	c := h.build(vRouter(router))
	pathCap, maxSeg := 11, 3
	_, pathCap, maxSeg = vDeep(stage, pathCap, maxSeg)
	q := vReq{method: nondetString("method", 7)}
	p := nondetString("path", pathCap)
	verifAssume(!strings.HasSuffix(p, "/"))
	verifAssume(len(strings.Trim(p, "/")) > 0)
	if vMinSegs > maxSeg {
		maxSeg = vMinSegs // the table has longer templates than the usual bound
	}
	verifAssume(strings.Count(strings.Trim(p, "/"), "/") < maxSeg)
	// recorded finding: a regex variable that admits the empty string (table 23) under RouterJSR311
	// recorded finding: p names exactly the prefix in front of a last variable whose expression admits ""
	segsK, _ := vSegments(p)
	nullable := false
	for _, f := range h.flat {
		if n := len(f.toks); n > 0 && f.toks[n-1].kind == tkRegex && vRx("^(?:"+f.toks[n-1].re+")$").MatchString("") && len(segsK) == n-1 {
			nullable = true
		}
	}
	verifKnown("jsr311-nullable-regex-var", router == 1 && nullable)
	q.path = p
	o1 := h.run(c, q)
	q.path = p + "/"
	o2 := h.run(c, q)
	if o1.invoked >= 0 {
		verifCover("invoked")
		verifObserveInt("route", o1.invoked)
	} else {
		verifCover("not-invoked")
		verifObserveInt("status", o1.status)
	}
	verifAssert(vSameOutcome(o1, o2), "C14: a trailing slash on the request path changes the outcome")
}

// H_C14_seq: the same law on a container with a history: requests for p and p/ were (or were not) served before routes
// were added to the WebService. Only "p and p/ have the same outcome" is judged - never what that outcome is - so that a
// router that legitimately remembers something is not accused as long as it remembers it for both spellings.
// mode 0: routes added after Add without dynamic routes; 1: with dynamic routes; 2: with dynamic routes, and a route is removed as well
func H_C14_seq(router, mode int) {
	var ran []string
	var seen map[string]string
	fn := func(id string) RouteFunction {
		return func(req *Request, resp *Response) {
			ran = append(ran, id)
			seen = map[string]string{}
			for k, v := range req.PathParameters() {
				seen[k] = v
			}
		}
	}
	c := NewContainer()
	c.Router(vRouter(router))
	ws := new(WebService)
	ws.Path("/t")
	if mode >= 1 {
		ws.SetDynamicRoutes(true)
	}
	ws.Route(ws.GET("/{v}").To(fn("get-var")))
	ws.Route(ws.PUT("/b").To(fn("put-b")))
	ws.Route(ws.GET("/b/{w}").To(fn("get-b-var")))
	c.Add(ws)
	p := nondetString("path", 9)
	verifAssume(!strings.HasSuffix(p, "/"))
	verifAssume(len(strings.Trim(p, "/")) > 0)
	verifAssume(strings.Count(strings.Trim(p, "/"), "/") < 3)
	method := []string{"GET", "PUT", "POST"}[nondetChoice("method", 3)]
	type out struct {
		status int
		ran    string
		allow  string
		params map[string]string
	}
	run := func(path string) out {
		ran, seen = nil, nil
		rec := vNewRec()
		c.Dispatch(rec, vReq{method: method, path: path}.http())
		return out{rec.code(), strings.Join(ran, ","), vHdr1(rec, "Allow"), seen}
	}
	if nondetBool("warm-p") {
		run(p)
	}
	if nondetBool("warm-p-slash") {
		run(p + "/")
	}
	ws.Route(ws.GET("/a").To(fn("get-a")))
	ws.Route(ws.PUT("/{u}").To(fn("put-var")))
	ws.Route(ws.GET("/b/c").To(fn("get-b-c")))
	if mode == 2 {
		ws.RemoveRoute("/t/b", "PUT")
	}
	o1 := run(p)
	o2 := run(p + "/")
	verifObserveInt("status", o1.status)
	verifObserveStr("route", o1.ran)
	if o1.ran != "" {
		verifCover("invoked")
	} else {
		verifCover("not-invoked")
	}
	verifAssert(o1.status == o2.status && o1.ran == o2.ran && o1.allow == o2.allow && vSameParams(o1.params, o2.params), "C14: after routes were added, a trailing slash on the request path changes the outcome")
}
