package restful

import (
	"strings"
)

func vTableMethods(flat []vFlat) []string {
	var out []string
	for _, f := range flat {
		if !vContains(out, f.route.method) {
			out = append(out, f.route.method)
		}
	}
	return out
}

// vNestedRoots: some literal root path is a token-wise prefix of another.
func vNestedRoots(t vTable) bool {
	for i, a := range t.services {
		for j, b := range t.services {
			if i == j {
				continue
			}
			ra, rb := strings.Trim(a.root, "/"), strings.Trim(b.root, "/")
			if ra == "" || strings.HasPrefix(rb+"/", ra+"/") {
				return true
			}
		}
	}
	return false
}

// H_C17: Allow headers tell the truth about which methods are routable.
func H_C17(tbl, router int) {
	pathCap, maxSeg := 12, 3
	if router >= 10 { // thorough bounds
		router -= 10
		_, pathCap, maxSeg = vDeep(10, pathCap, maxSeg)
	}
	t := vTableFor(tbl)
	h := vNewH(t)
	c := h.build(vRouter(router))
	c.Filter(c.OPTIONSFilter)
	ht := &vH{table: t, flat: h.flat, cond: h.cond}
	twin := ht.build(vRouter(router))
	p := nondetString("path", pathCap)
	if vMinSegs > maxSeg {
		maxSeg = vMinSegs // the table has longer templates than the usual bound
	}
	verifAssume(strings.Count(strings.Trim(p, "/"), "/") < maxSeg)
	// recorded findings
	// (the URL is claimed by the root expressions of more than one WebService)
	segsK, _ := vSegments(p)
	claims := 0
	for _, s := range t.services {
		claims += vIte(refRootMatch(vRootToks(s.root), segsK) == refYes, 1, 0)
	}
	// ... and the recorded behaviour is specific: the filter lists the methods of the matching routes of ALL
	// claiming services. unionHas[m] is that reference of the defect; the class only covers answers equal to it.
	nestedClaim := claims >= 2
	verifKnown("routers-noncanonical", vOr(!strings.HasPrefix(p, "/"), strings.Contains(p, "//")))
	verifKnown("jsr311-newline", strings.Contains(p, "\n"))
	methods := append(vTableMethods(h.flat), "LOCK")
	// which methods are routable at this URL (not 404, not 405)?
	routable := make([]bool, len(methods))
	any405 := false
	allow405 := ""
	for i, m := range methods {
		o := h.run(c, vReq{method: m, path: p})
		routable[i] = o.status != 404 && o.status != 405
		if o.status == 405 {
			any405 = true
			allow405 = o.allow
		}
		ot := ht.run(twin, vReq{method: m, path: p})
		verifAssert(vSameOutcome(o, ot), "C17: the OPTIONS filter changes how a non-OPTIONS request is answered")
	}
	// one more method, symbolic: any method no route declares (HEAD, PATCH, ...) must be neither routable nor listed
	mx := nondetString("method", 7)
	verifAssume(mx != "OPTIONS")
	for _, m := range methods {
		verifAssume(mx != m)
	}
	ox := h.run(c, vReq{method: mx, path: p})
	routableX := ox.status != 404 && ox.status != 405
	verifCoverIf("undeclared-method-405", ox.status == 405)
	if ox.status == 405 {
		any405 = true
		allow405 = ox.allow
	}
	// the 405 Allow set
	if any405 {
		verifCover("405")
		set := vAllowSet(allow405)
		for i, m := range methods {
			verifAssert(routable[i] == vContains(set, m), "C17: 405 Allow header does not list exactly the routable methods")
		}
		for _, m := range set {
			if !vContains(methods, m) {
				// a listed method that no route declares is only wrong if a request with it is not routable
				om := h.run(c, vReq{method: m, path: p})
				verifAssert(om.status != 404 && om.status != 405, "C17: 405 Allow header lists a method that is not routable")
			}
		}
		verifAssert(routableX == vContains(set, mx), "C17: a method that no route declares is routable but the 405 Allow header does not list it (or the reverse)")
	}
	// the OPTIONS filter
	rec := vNewRec()
	h.invoked = nil
	h.dispatch(c, rec, vReq{method: "OPTIONS", path: p}.http())
	verifAssert(len(h.invoked) == 0, "C17: the OPTIONS filter let a route function run")
	allow, acam := "", ""
	if v := rec.out()["Allow"]; len(v) > 0 {
		allow = v[0]
	}
	if v := rec.out()["Access-Control-Allow-Methods"]; len(v) > 0 {
		acam = v[0]
	}
	verifObserveStr("options-allow", allow)
	set := vAllowSet(allow)
	if len(set) > 0 {
		verifCover("options-nonempty")
	}
	unionOK := true
	for _, m := range methods {
		has := false
		for _, f := range h.flat {
			if f.route.method == m {
				svcRoot := vRootToks(t.services[f.svc].root)
				has = vOr(has, vAnd(refRootMatch(svcRoot, segsK) == refYes, refPathMatch(f.toks, segsK) == refYes))
			}
		}
		unionOK = vAnd(unionOK, has == vContains(set, m))
	}
	verifKnown("options-nested-roots", vAnd(nestedClaim, unionOK))
	verifAssert(strings.Join(set, ",") == strings.Join(vAllowSet(acam), ","), "C17: Allow and Access-Control-Allow-Methods differ")
	for i, m := range methods {
		verifAssert(routable[i] == vContains(set, m), "C17: the OPTIONS filter does not list exactly the routable methods")
	}
	verifAssert(routableX == vContains(set, mx), "C17: a method that no route declares is routable but the OPTIONS filter does not list it (or the reverse)")
}
