package restful

import "strings"

// engine smoke tests
func H_probe_tokenize(cfg int) {
	p := nondetString("path", 8)
	toks := tokenizePath(p)
	verifObserveInt("n", len(toks))
	if len(toks) > 0 {
		verifObserveStr("t0", toks[0])
	}
	// oracle: number of tokens = 1 + number of '/' in the trimmed path, except for "/"
	if p != "/" {
		tr := strings.Trim(p, "/")
		verifAssert(len(toks) == strings.Count(tr, "/")+1, "token count")
	} else {
		verifAssert(len(toks) == 0, "slash gives no tokens")
		verifCover("slash")
	}
	if len(toks) == 2 {
		verifCover("two")
		verifAssert(toks[0] != "/x", "token contains slash")
	}
}
