package restful

import (
	"bytes"
	"io/ioutil"
	"net/http"
	"net/url"
)

const vMsgStuck13 = "C13: acquiring or releasing a pooled compressor can block forever"

// H_C13_conc: the bounded cache provider under concurrent acquire/release.
// capacity: writers capacity; fill: objects in the cache at the start; nthreads; kind: 0 gzip writer, 1 zlib writer, 2 gzip reader
func H_C13_conc(capacity, fill, nthreads, kind int) {
	p := NewBoundedCachedCompressors(capacity, capacity)
	// NewBoundedCachedCompressors starts full: take objects out (and keep them) to get the initial fill
	for i := 0; i < capacity-fill; i++ {
		switch kind {
		case 0:
			p.AcquireGzipWriter()
		case 1:
			p.AcquireZlibWriter()
		case 2:
			p.AcquireGzipReader()
		}
	}
	for t := 0; t < nthreads; t++ {
		verifSpawn(func() {
			switch kind {
			case 0:
				w := p.AcquireGzipWriter()
				p.ReleaseGzipWriter(w)
			case 1:
				w := p.AcquireZlibWriter()
				p.ReleaseZlibWriter(w)
			case 2:
				r := p.AcquireGzipReader()
				p.ReleaseGzipReader(r)
			}
		})
	}
	verifRunThreads("", vMsgStuck13)
	verifCover("ran")
}

// H_C13_read: Request.ReadEntity releases the decompressor it acquired exactly once.
// enc: 0 none, 1 gzip, 2 deflate; provider as in vProvider
func H_C13_read(enc, provider int) {
	led := vNewLedger(vProvider(provider))
	old := currentCompressorProvider
	SetCompressorProvider(led)
	defer SetCompressorProvider(old)
	hd := http.Header{"Content-Type": []string{MIME_JSON}}
	if enc == 1 {
		hd["Content-Encoding"] = []string{"gzip"}
	} else if enc == 2 {
		hd["Content-Encoding"] = []string{"deflate"}
	}
	hr := &http.Request{Method: "POST", URL: &url.URL{Path: "/"}, Header: hd, Body: ioutil.NopCloser(bytes.NewReader([]byte("{}")))}
	req := NewRequest(hr)
	var v map[string]interface{}
	for i := 0; i < 2; i++ { // a failing read must not poison the next one
		err := req.ReadEntity(&v)
		_ = err
		verifAssert(led.clean(), "C13: a decompressor was lost, released twice or used after release")
	}
	verifCover("read")
}
