package restful

import (
	"bytes"
	"compress/gzip"
	"compress/zlib"
	"io/ioutil"
	"net/http"
	"net/url"
)

const vMsgStuck13 = "C13: acquiring or releasing a pooled compressor can block forever"

// H_C13_conc: the bounded cache provider under concurrent acquire/release.
// capacity: writers capacity; fill: objects in the cache at the start; nthreads; kind: 0 gzip writer, 1 zlib writer, 2 gzip reader
func H_C13_conc(capacity, fill, nthreads, kind int) {
	p := NewBoundedCachedCompressors(capacity, capacity)
	// NewBoundedCachedCompressors starts full: take objects out (and keep them) to get the initial fill
	for i := 0; i < capacity-fill; i++ {
		switch kind {
		case 0:
			p.AcquireGzipWriter()
		case 1:
			p.AcquireZlibWriter()
		case 2:
			p.AcquireGzipReader()
		}
	}
	for t := 0; t < nthreads; t++ {
		verifSpawn(func() {
			switch kind {
			case 0:
				w := p.AcquireGzipWriter()
				p.ReleaseGzipWriter(w)
			case 1:
				w := p.AcquireZlibWriter()
				p.ReleaseZlibWriter(w)
			case 2:
				r := p.AcquireGzipReader()
				p.ReleaseGzipReader(r)
			}
		})
	}
	verifRunThreads("", vMsgStuck13)
	verifCover("ran")
}

// H_C13_read: Request.ReadEntity releases the decompressor it acquired exactly once.
// enc: 0 none, 1 gzip, 2 deflate; provider as in vProvider
func H_C13_read(enc, provider int) {
	led := vNewLedger(vProvider(provider))
	old := currentCompressorProvider
	SetCompressorProvider(led)
	defer SetCompressorProvider(old)
	hd := http.Header{"Content-Type": []string{MIME_JSON}}
	if enc == 1 {
		hd["Content-Encoding"] = []string{"gzip"}
	} else if enc == 2 {
		hd["Content-Encoding"] = []string{"deflate"}
	}
	hr := &http.Request{Method: "POST", URL: &url.URL{Path: "/"}, Header: hd, Body: ioutil.NopCloser(bytes.NewReader([]byte("{}")))}
	req := NewRequest(hr)
	var v map[string]interface{}
	for i := 0; i < 2; i++ { // a failing read must not poison the next one
		err := req.ReadEntity(&v)
		_ = err
		verifAssert(led.clean(), "C13: a decompressor was lost, released twice or used after release")
	}
	verifCover("read")
}

// H_C13_sched: exclusive use under concurrency, on the value level (bounded interleaving exploration, DESIGN 2.8b).
// Threads use the provider through the ledger, every provider call being a point where the scheduler may switch.
// provider as in vProvider; kind 0 gzip writer, 1 zlib writer, 2 gzip reader: each thread acquires, works, releases;
// kind 3: two encoded responses through a container (gzip, Dispatch), kind 4: the same with deflate, kinds 5/6: the same
// through ServeHTTP (which closes the response writer a second time after dispatch has); kinds 7-9: kinds 0-2 after a
// sequential burst of three acquisitions and releases; pre: preemption bound
func H_C13_sched(provider, nthreads, kind, pre int) {
	led := vNewLedger(vProvider(provider))
	led.yield = true
	old := currentCompressorProvider
	SetCompressorProvider(led)
	defer SetCompressorProvider(old)
	var recs []*vRec
	if kind >= 3 && kind < 7 {
		c := NewContainer()
		c.EnableContentEncoding(true)
		ws := new(WebService)
		ws.Path("/t")
		ws.Route(ws.GET("/{v}").To(func(req *Request, resp *Response) {
			resp.Write([]byte("<" + req.PathParameter("v")))
			verifYield() // the response is half written while the other one makes progress
			resp.Write([]byte(">"))
		}))
		c.Add(ws)
		ae := "gzip"
		if kind == 4 || kind == 6 {
			ae = "deflate"
		}
		for t := 0; t < nthreads; t++ {
			rec := vNewRec()
			recs = append(recs, rec)
			req := vHdrReq("GET", "/t/p"+vItoa(t), map[string]string{"Accept-Encoding": ae})
			verifSpawn(func() {
				if kind >= 5 {
					c.ServeHTTP(rec, req)
				} else {
					c.Dispatch(rec, req)
				}
			})
		}
	} else {
		if kind >= 7 {
			// a history first: more objects than any cache holds are taken and given back one after the other, so that
			// some release finds the cache full (what a provider does with the surplus must not come back twice)
			kind -= 7
			var held []interface{}
			for i := 0; i < 3; i++ {
				switch kind {
				case 0:
					held = append(held, led.AcquireGzipWriter())
				case 1:
					held = append(held, led.AcquireZlibWriter())
				case 2:
					held = append(held, led.AcquireGzipReader())
				}
			}
			for _, o := range held {
				switch x := o.(type) {
				case *gzip.Writer:
					led.ReleaseGzipWriter(x)
				case *zlib.Writer:
					led.ReleaseZlibWriter(x)
				case *gzip.Reader:
					led.ReleaseGzipReader(x)
				}
			}
			verifCover("after-a-burst")
		}
		for t := 0; t < nthreads; t++ {
			verifSpawn(func() {
				switch kind {
				case 0:
					w := led.AcquireGzipWriter()
					verifYield() // works with it
					led.ReleaseGzipWriter(w)
				case 1:
					w := led.AcquireZlibWriter()
					verifYield()
					led.ReleaseZlibWriter(w)
				case 2:
					r := led.AcquireGzipReader()
					verifYield()
					led.ReleaseGzipReader(r)
				}
			})
		}
	}
	verifRunSchedules(pre, vMsgStuck13)
	verifCover("ran")
	verifAssert(!led.shared, "C13: a provider handed out an object that is still in use")
	verifAssert(led.clean(), "C13: a compressor was lost, released twice or used after release")
	for t, rec := range recs {
		ce := vHdr1(rec, "Content-Encoding")
		payload, ok := verifDecodeBody(rec.chunks, ce)
		verifObserveStr("payload"+vItoa(t), string(payload))
		verifObserveStr("coding"+vItoa(t), ce)
		verifObserveInt("status"+vItoa(t), rec.code())
		verifAssert(ce != "" && ok && string(payload) == "<p"+vItoa(t)+">", "C13: concurrent encoded responses do not each decode to their own payload")
	}
}
