package restful

import (
	"encoding/xml"
	"errors"
	"net/http"
)

var vWriteErr = errors.New("verif: underlying writer failed")

// vFailW accepts everything until call number failAt, from then on only a
// nondeterministic prefix of each write, returning an error.
type vFailW struct {
	hdr      http.Header
	status   int
	accepted int
	chunks   [][]byte
	calls    int
	failAt   int
	failed   bool
}

func (w *vFailW) Header() http.Header { return w.hdr }
func (w *vFailW) WriteHeader(s int) {
	if w.status == 0 {
		w.status = s
	}
}
func (w *vFailW) Write(b []byte) (int, error) {
	if w.status == 0 {
		w.status = 200
	}
	w.calls++
	if w.calls > w.failAt {
		n := nondetInt("acc"+vItoa(w.calls), 0, 8)
		verifAssume(n <= len(b))
		w.accepted += n
		w.failed = true
		return n, vWriteErr
	}
	w.accepted += len(b)
	w.chunks = append(w.chunks, verifKeep(b))
	return len(b), nil
}

type vEntity struct {
	A int
	B string
}

// vBadEntity cannot be marshalled (natively: its marshalling methods fail; symbolically: the marshalling stubs
// fail for exactly this type), so that error paths of the entity writers are the same on both sides
type vBadEntity struct{}

func (vBadEntity) MarshalJSON() ([]byte, error) { return nil, errors.New("verif: not marshallable") }
func (vBadEntity) MarshalXML(e *xml.Encoder, start xml.StartElement) error {
	return errors.New("verif: not marshallable")
}

func vPickEntity(bad bool) interface{} {
	if bad {
		return vBadEntity{}
	}
	return vEntity{A: 1, B: "x"}
}

// H_C15: response status and length bookkeeping match what was actually sent.
// steps: number of writing calls; compressed: 1 = a CompressingResponseWriter sits underneath
func H_C15(steps, compressed int) {
	w := &vFailW{hdr: http.Header{}, failAt: nondetInt("failat", 0, 6)}
	var under http.ResponseWriter = w
	var cw *CompressingResponseWriter
	if compressed == 1 {
		var err error
		cw, err = NewCompressingResponseWriter(w, ENCODING_GZIP)
		verifAssume(err == nil)
		under = cw
		w.failAt = 100 // error propagation is only claimed without a content coding in between
	}
	resp := NewResponse(under)
	resp.SetRequestAccepts(MIME_JSON)
	resp.routeProduces = []string{MIME_JSON, MIME_XML}
	resp.PrettyPrint(nondetBool("pretty"))
	statusSet := 0   // status the calls set (0 none)
	bodyStarted := false
	handed := 0      // bytes handed to the writer below Response when a coding sits in between
	badEnt := nondetBool("badentity")
	ent := vPickEntity(badEnt)
	marshalled := false // marshalling is stubbed symbolically, real natively: nothing to compare then
	for i := 0; i < steps; i++ {
		op := nondetChoice("op"+vItoa(i), 12)
		wasFailed := w.failed
		before := w.accepted
		var err error
		setsStatus := 0
		writes := true
		switch op {
		case 0:
			p := []byte(nondetString("payload"+vItoa(i), 3))
			handed += len(p)
			_, err = resp.Write(p)
		case 1:
			setsStatus = []int{201, 204, 304, 500}[nondetChoice("st"+vItoa(i), 4)]
			resp.WriteHeader(setsStatus)
			writes = false
		case 2:
			setsStatus = 400
			err = resp.WriteErrorString(400, "bad")
			handed += 3
		case 3:
			setsStatus = 500
			err = resp.WriteError(500, errors.New("boom"))
			handed += 4
		case 4:
			setsStatus = 200
			err = resp.WriteEntity(ent)
			handed = -1 << 30 // opaque marshal output: counted by the model below
		case 5:
			setsStatus = 202
			err = resp.WriteHeaderAndEntity(202, ent)
			handed = -1 << 30
		case 6:
			setsStatus = 200
			err = resp.WriteAsJson(ent)
			handed = -1 << 30
		case 7:
			setsStatus = 200
			err = resp.WriteAsXml(ent)
			handed = -1 << 30
		case 8:
			setsStatus = 203
			err = resp.WriteHeaderAndXml(203, ent)
			handed = -1 << 30
		case 9:
			setsStatus = 409
			err = resp.WriteServiceError(409, NewError(409, "conflict"))
			handed = -1 << 30
		case 10:
			setsStatus = 200
			err = resp.WriteJson(ent, "a/j")
			handed = -1 << 30
		case 11:
			setsStatus = 207
			err = resp.WriteHeaderAndJson(207, ent, "a/j")
			handed = -1 << 30
		}
		if op >= 4 {
			marshalled = true
		}
		// precondition of the property: status at most once and before any body byte
		if setsStatus != 0 {
			verifAssume(statusSet == 0 && !bodyStarted)
			// a marshal error (stub) aborts before the status is set
			statusSet = setsStatus
		}
		if writes {
			bodyStarted = true
		}
		if compressed == 0 {
			// the call during which the underlying writer first failed returns that error
			if !wasFailed && w.failed {
				verifCover("writer-failed")
				verifAssert(err == vWriteErr, "C15: the call during which the underlying writer failed did not return that error")
			}
			if !w.failed {
				_ = before
			}
		}
	}
	if !marshalled {
		verifObserveInt("status", resp.StatusCode())
		verifObserveInt("length", resp.ContentLength())
	}
	expStatus := w.status
	if expStatus == 0 {
		expStatus = 200
	}
	verifAssert(resp.StatusCode() == expStatus, "C15: StatusCode() differs from the status the underlying writer received")
	if compressed == 0 {
		verifAssert(resp.ContentLength() == w.accepted, "C15: ContentLength() differs from the number of body bytes the underlying writer accepted")
	} else {
		verifCover("compressed")
		if handed >= 0 {
			verifAssert(resp.ContentLength() == handed, "C15: ContentLength() is not the number of bytes written before content coding")
		}
		cw.Close()
		// what the underlying writer accepted, counted before the coding: decode it
		coding := ""
		if v := w.hdr["Content-Encoding"]; len(v) > 0 {
			coding = v[0]
		}
		payload, ok := verifDecodeBody(w.chunks, coding)
		verifAssert(ok && len(payload) == resp.ContentLength(), "C15: ContentLength() is not the number of body bytes (before content coding) the underlying writer accepted")
	}
}

// H_C15_seq: "both are what filters after the handler observe", for a sequence of requests through a container: a
// trailing container filter reads StatusCode()/ContentLength() after the chain returned and compares them with what
// the request's own underlying writer received. n requests (symbolic payloads and statuses) through Dispatch
// (entry 0) or ServeHTTP (entry 1), optionally to a second container sharing nothing but the package.
func H_C15_seq(n, entry int) {
	type seen struct{ status, length int }
	var obs []seen
	mk := func() *Container {
		c := NewContainer()
		c.Filter(func(req *Request, resp *Response, chain *FilterChain) {
			chain.ProcessFilter(req, resp)
			obs = append(obs, seen{resp.StatusCode(), resp.ContentLength()})
		})
		ws := new(WebService)
		ws.Path("/t")
		ws.Route(ws.GET("/{k}").To(func(req *Request, resp *Response) {
			k := req.PathParameter("k")
			switch nondetChoice("op-"+k, 4) {
			case 0:
				resp.Write([]byte(nondetString("payload-"+k, 3)))
			case 1:
				resp.WriteHeader([]int{201, 204, 500}[nondetChoice("st-"+k, 3)])
				resp.Write([]byte(nondetString("payload-"+k, 3)))
			case 2:
				resp.WriteErrorString(400, "bad")
			case 3:
				resp.WriteHeaderAndEntity(202, vEntity{A: 1, B: "x"})
			}
		}))
		c.Add(ws)
		return c
	}
	cs := []*Container{mk(), mk()}
	for i := 0; i < n; i++ {
		w := &vFailW{hdr: http.Header{}, failAt: 100}
		c := cs[nondetChoice("container"+vItoa(i), 2)]
		req := vReq{method: "GET", path: "/t/r" + vItoa(i)}.http()
		obs = nil
		if entry == 1 {
			c.ServeHTTP(w, req)
		} else {
			c.Dispatch(w, req)
		}
		verifAssert(len(obs) == 1, "C15: the trailing filter did not run exactly once")
		if len(obs) != 1 {
			return
		}
		exp := w.status
		if exp == 0 {
			exp = 200
		}
		verifObserveInt("status"+vItoa(i), obs[0].status)
		verifAssert(obs[0].status == exp, "C15: StatusCode() seen by a filter after the handler differs from the status the underlying writer received")
		verifAssert(obs[0].length == w.accepted, "C15: ContentLength() seen by a filter after the handler differs from the number of body bytes the underlying writer accepted")
	}
	verifCover("sequence-observed")
}
