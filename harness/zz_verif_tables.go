package restful

// Core route tables (DESIGN.md appendix B). Index = configuration number.

var vAJ = []string{"a/j"}
var vAX = []string{"a/x"}

func vCoreTables() []vTable {
	one := func(root string, routes ...vRoute) vTable {
		return vTable{services: []vService{{root: root, routes: routes}}}
	}
	g := func(p string) vRoute { return vRoute{method: "GET", path: p} }
	return []vTable{
		/* 0 */ one("/t", g("/{v}")),
		/* 1 */ one("/t", g("/a"), g("/{v}")),
		/* 2 */ one("/t", g("/{v}.x")),
		/* 3 */ one("/t", g("/p{v}")),
		/* 4 */ one("/t", g("/{v:[0-9]+}")),
		/* 5 */ one("/t", g("/a/{t:*}")),
		/* 6 */ one("/t", g("/a:go"), g("/{v}:go")),
		/* 7 */ one("/t", g("/a/{v}"), vRoute{method: "POST", path: "/a/{v}"}, vRoute{method: "PUT", path: "/a/b"}),
		/* 8 */ one("/t", vRoute{method: "POST", path: "/a", consumes: vAJ, produces: vAX}),
		/* 9 */ one("/t", vRoute{method: "GET", path: "/a", produces: vAJ}, vRoute{method: "GET", path: "/a", produces: vAX}),
		/* 10 */ {services: []vService{{root: "/", routes: []vRoute{g("/a")}}, {root: "/a", routes: []vRoute{{method: "POST", path: "/"}}}}},
		/* 11 */ {services: []vService{{root: "/a", routes: []vRoute{g("/b")}}, {root: "/{r}", routes: []vRoute{g("/b")}}}},
		/* 12 */ {services: []vService{{root: "/{n:[a-z]+}", routes: []vRoute{g("/")}}, {root: "/{i:[0-9]+}", routes: []vRoute{g("/")}}}},
		/* 13 */ {services: []vService{{root: "/", routes: []vRoute{g("/{v}")}}, {root: "/{r:[0-9]+}", routes: []vRoute{g("/b")}}}},
		/* 14 */ one("/{r}", g("/{v}/b")),
		/* 15 */ one("/t", vRoute{method: "GET", path: "/a", cond: true}, g("/{v}")),
		/* 16 */ one("/", g("/"), g("/a/{v}/b")),
		/* 17 */ one("/t", g("/a/{v:[a-z]+}"), g("/a/{w}")),
		/* 18 */ one("/t", g("/ab{v}ba")),
		/* 19 */ one("/t", vRoute{method: "UNLOCK", path: "/a"}, vRoute{method: "LOCK", path: "/a"}, g("/b")),
		/* 20 */ {services: []vService{{root: "/a/{r:[0-9]+}", routes: []vRoute{g("/b")}}, {root: "/a/7", routes: []vRoute{g("/b")}}}},
		/* 21 */ {services: []vService{{root: "/a", routes: []vRoute{g("/{v}")}}, {root: "/b", routes: []vRoute{g("/{w}")}}}},
		/* 22 */ one("/t", g("/{v}/{w}:go")),
		/* 23 */ one("/t", g("/{v:[0-9]*}")),
		/* 24 */ one("/t", vRoute{method: "POST", path: "/a/b"}, g("/a/{x}"), g("/{y}/b"), vRoute{method: "PUT", path: "/{p}/{q}"}),
		/* 25 */ {services: []vService{{root: "/a", routes: []vRoute{g("/b")}}, {root: "/", routes: []vRoute{g("/{v}/b")}}}},
		/* 26 */ one("/t", g("/a/{x}"), g("/{y}/b")),
		/* 27 */ one("/t", g("/abc/{x}"), g("/{y}/d")),
		/* 28 */ one("/t", g("/a.x"), g("/{v}.x")),
		/* 29 */ one("/a/", g("/"), g("/b")),
		/* 30 */ one("/t", g("/a b/{v}"), g("/c,d")),
		/* 31 */ one("/t", g("/a/b"), g("/a/{v:[a-z]+}")),
		/* 32 */ one("/t", vRoute{method: "GET", path: "/a", produces: vAX}, vRoute{method: "POST", path: "/a", produces: vAJ}),
		/* 33 */ one("/t", vRoute{method: "POST", path: "/a", consumes: vAJ}, vRoute{method: "GET", path: "/a", consumes: vAX}),
		/* 34 */ one("/t", vRoute{method: "POST", path: "/a", consumes: vAJ, noCT: []string{"POST"}}, vRoute{method: "GET", path: "/a", consumes: vAJ, noCT: []string{"PUT"}}),
		/* 35 */ {services: []vService{{root: "/t/{id}", routes: []vRoute{g("/"), g("/r")}}, {root: "/t", routes: []vRoute{g("/"), vRoute{method: "POST", path: "/"}}}}},
		/* 36 */ {services: []vService{{root: "/t", routes: []vRoute{g("/")}}, {root: "/t/{id}", routes: []vRoute{g("/r")}}, {root: "/tt", routes: []vRoute{g("/")}}}},
		/* 37 */ {services: []vService{{root: "/f/{n}.x", routes: []vRoute{g("/e")}}, {root: "/f/{n}.y", routes: []vRoute{g("/e")}}}},
		/* 38 */ {services: []vService{{root: "/t/a", routes: []vRoute{g("/")}}, {root: "/t/{s}", routes: []vRoute{g("/"), vRoute{method: "POST", path: "/"}}}}},
		/* 39 */ one("/a/b/c", g("/{id}"), vRoute{method: "PUT", path: "/{u}"}),
		/* 40 */ one("/t", vRoute{method: "POST", path: "/a"}, vRoute{method: "POST", path: "/{v}", consumes: vAJ}, vRoute{method: "GET", path: "/a"}, vRoute{method: "GET", path: "/{w}", produces: vAJ}),
		/* 41 */ one("/t", vRoute{method: "GET", path: "/a", cond: true}, vRoute{method: "GET", path: "/a", cond: true}),
		/* 42 */ one("/t", g("/b/"), vRoute{method: "POST", path: "/b/"}, g("/b/c/"), g("/{v}/")), // templates written with a trailing slash
		/* 43 */ one("/t", g("/{v}:go"), g("/a"), vRoute{method: "POST", path: "/b"}), // a custom-verb route on a variable in front of literal siblings
		/* 44 */ one("/t", vRoute{method: "POST", path: "/a/b", consumes: vAX}, vRoute{method: "POST", path: "/a/{y}"}, vRoute{method: "POST", path: "/{x}/{y}"}, vRoute{method: "GET", path: "/a/b", produces: vAX}, vRoute{method: "GET", path: "/a/{y}"}, vRoute{method: "GET", path: "/{x}/{y}"}), // the most specific of three is ineligible by media type
	}
}

// tables that use template forms only CurlyRouter documents
func vCurlyOnly(tbl int) bool {
	return tbl == 2 || tbl == 3 || tbl == 6 || tbl == 18 || tbl == 22 || tbl == 28 || tbl == 37 || tbl == 43
}

func vTableFor(tbl int) vTable {
	if tbl >= 5000 {
		return vGenMediaTable(tbl - 5000)
	}
	if tbl >= 3000 {
		return vGenRootTable(tbl - 3000)
	}
	if tbl >= 1000 {
		return vGenTable(tbl - 1000)
	}
	return vCoreTables()[tbl]
}
