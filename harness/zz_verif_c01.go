package restful

import "strings"

// vSymRequest builds the symbolic request for a stage.
// stage 0: path and method symbolic, headers absent.
// stage 1: header stage: one concrete sample path per route; method and headers symbolic.
// stage 2: everything symbolic (path cap reduced).
// vDeep: stages >= 10 are the same stages with the thorough bounds (path 16 bytes, 4 segments).
func vDeep(stage, pathCap, maxSeg int) (int, int, int) {
	if stage >= 10 {
		return stage - 10, pathCap + 8, maxSeg + 2
	}
	return stage, pathCap, maxSeg
}

// vMinSegs: the longest template of the table most recently handed to vNewH, in segments; the segment bound of a
// symbolic path is never smaller (a table with a three-segment root path needs four)
var vMinSegs int

func vSymRequest(stage, pathCap, maxSeg int, samples []string) vReq {
	stage, pathCap, maxSeg = vDeep(stage, pathCap, maxSeg)
	if vMinSegs > maxSeg {
		maxSeg = vMinSegs
	}
	q := vReq{}
	q.method = nondetString("method", 7)
	if stage == 1 {
		q.path = samples[nondetChoice("pathsel", len(samples))]
	} else {
		q.path = nondetString("path", pathCap)
		// bound the number of segments (stated bound)
		verifAssume(strings.Count(strings.Trim(q.path, "/"), "/") < maxSeg)
	}
	if stage >= 1 {
		q.ctype = nondetString("ctype", 6)
		verifAssume(strings.Count(q.ctype, ",") <= 1)
		q.accept = nondetString("accept", 8)
		verifAssume(strings.Count(q.accept, ",") <= 1)
		q.clHdr = nondetString("clhdr", 2)
		q.clen = nondetInt("clen", -1, 2)
	}
	return q
}

// H_C01: a route function runs only for requests its declaration admits.
func H_C01(tbl, router, stage int) {
	t := vTableFor(tbl)
	h := vNewH(t)
	c := h.build(vRouter(router))
	pathCap := 12
	if stage%10 >= 2 {
		pathCap = 8
	}
	q := vSymRequest(stage, pathCap, 3, vSamplePaths(h.flat))
	// If-conditions are evaluated for every request: an earlier request with the same method, URL and headers for which
	// every condition held must not decide this one
	hasCond := false
	for _, f := range h.flat {
		hasCond = hasCond || f.route.cond
	}
	if hasCond && nondetBool("earlier") {
		saved := h.cond
		h.cond = make([]bool, len(saved))
		for i := range h.cond {
			h.cond[i] = true
		}
		h.dispatch(c, vNewRec(), q.http())
		h.cond = saved
		h.invoked, h.selPath, h.selMeth, h.params, h.panicked = nil, nil, nil, nil, false
		verifCover("after-earlier-request")
	}
	rec := vNewRec()
	h.dispatch(c, rec, q.http())
	if h.panicked {
		verifCover("panic")
		return // totality is C02's obligation
	}
	verifAssert(len(h.invoked) <= 1, "C01: more than one route function ran")
	if len(h.invoked) == 0 {
		verifCover("not-invoked")
		verifObserveInt("status", rec.code())
		return
	}
	verifCover("invoked")
	segs, canon := vSegments(q.path)
	id := h.invoked[0]
	verifObserveInt("route", id)
	adm := h.refAdmits(id, q, segs, canon)
	verifCoverIf("unspecified", adm == refUnspec)
	verifAssert(adm != refNo, "C01: route function ran for a request its declaration does not admit")
	verifAssert(h.selPath[0] == h.flat[id].full, "C01: SelectedRoutePath is not the path of the route that ran")
	verifAssert(h.selMeth[0] == h.flat[id].route.method, "C01: SelectedRoute().Method() is not the method of the route that ran")
}
